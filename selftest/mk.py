#!/usr/bin/env python3
"""mk.py <name> <must_fail csv> <must_pass csv> <file> <old> <new> [<file> <old> <new> ...]
Creates /verif/selftest/mutants/<name>.patch (+ .json expectations) from textual replacements applied to
the scratch git copy /var/tmp/mw (a copy of /repo)."""
import sys, subprocess, json, os
name, fail, ok = sys.argv[1], sys.argv[2], sys.argv[3]
rest = sys.argv[4:]
W = '/var/tmp/mw'
subprocess.run(['git','-C',W,'checkout','-q','.'],check=True)
for i in range(0, len(rest), 3):
    f, old, new = rest[i:i+3]
    p = os.path.join(W, f)
    s = open(p).read()
    if old not in s:
        print('PATTERN NOT FOUND in', f, ':', old); sys.exit(1)
    s = s.replace(old, new, 1)
    open(p,'w').write(s)
d = subprocess.run(['git','-C',W,'diff'],capture_output=True,text=True,check=True).stdout
open(f'/verif/selftest/mutants/{name}.patch','w').write(d)
json.dump({"name":name,"must_fail":[x for x in fail.split(',') if x],"must_pass":[x for x in ok.split(',') if x]}, open(f'/verif/selftest/mutants/{name}.json','w'), indent=1)
subprocess.run(['git','-C',W,'checkout','-q','.'],check=True)
print('wrote', name, len(d), 'bytes')
