#!/usr/bin/env python3
"""Must-fail corpus runner: applies each mutant patch to a scratch copy of /repo (outside /repo and /verif),
runs the listed property checks on it and compares with the expectations.
usage: run.py [-j N] [mutant-name ...]"""
import sys, os, json, subprocess, shutil, tempfile, glob, concurrent.futures
V = '/verif'
def run_mutant(name):
    exp = json.load(open(f'{V}/selftest/mutants/{name}.json'))
    d = tempfile.mkdtemp(prefix='govc-st-', dir='/var/tmp')
    res = {"name": name, "ok": True, "detail": []}
    try:
        repo = os.path.join(d, 'repo'); out = os.path.join(d, 'out')
        subprocess.run(['rsync','-a','--exclude','.git',os.environ.get('ST_REPO','/repo').rstrip('/')+'/',repo+'/'],check=True)
        p = subprocess.run(['patch','-p1','-s','-d',repo,'-i',f'{V}/selftest/mutants/{name}.patch'],capture_output=True,text=True)
        if p.returncode != 0:
            res["ok"] = False; res["detail"].append("PATCH FAILED: "+p.stdout+p.stderr); return res
        env = dict(os.environ, VERIF_REPO=repo, VERIF_OUT=out, VERIF_DIR=V)
        for prop, want in [(p,1) for p in exp["must_fail"]] + [(p,0) for p in exp["must_pass"]]:
            r = subprocess.run([os.environ.get('ST_GOVC', f'{V}/bin/govc'),'check',prop,'quick'],env=env,capture_output=True,text=True)
            viol = [l for l in r.stdout.splitlines() if l.startswith('VIOLATION') or l.startswith('FAILED')]
            good = (r.returncode == want)
            if not good: res["ok"] = False
            res["detail"].append(f'{"ok " if good else "BAD"} {prop}: exit={r.returncode} want={want} ' + ('; '.join(v[:160] for v in viol[:3]) if viol else r.stdout.strip().splitlines()[-1][:160] if r.stdout.strip() else r.stderr[-300:]))
    finally:
        shutil.rmtree(d, ignore_errors=True)
    return res
def main():
    args = sys.argv[1:]; j = 3
    if args and args[0] == '-j': j = int(args[1]); args = args[2:]
    names = args or sorted(os.path.basename(p)[:-6] for p in glob.glob(f'{V}/selftest/mutants/*.patch'))
    bad = 0
    with concurrent.futures.ThreadPoolExecutor(max_workers=j) as ex:
        for res in ex.map(run_mutant, names):
            print(('PASS ' if res["ok"] else 'FAIL ') + res["name"])
            for d in res["detail"]: print('     ', d)
            if not res["ok"]: bad += 1
    print(f'{len(names)-bad}/{len(names)} mutants behaved as expected')
    sys.exit(1 if bad else 0)
main()
