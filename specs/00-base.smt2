; Uninterpreted functions shared by the assumed contracts.
; integers and strings
(declare-fun okInt (String) Bool)          ; big.Int.SetString(s, 0) succeeds and |v| < 2^256
(declare-fun parseInt (String) Int)        ; the parsed value
(declare-fun intstr (Int) String)          ; big.Int.String
; addresses (sdk.AccAddress as an opaque sort)
(declare-fun bech32 (Addr) String)         ; AccAddress.String()
(declare-fun okAddr (String) Bool)         ; AccAddressFromBech32 succeeds
(declare-fun decodeAddr (String) Addr)     ; its result
(declare-fun moduleAddr (String) Addr)     ; authtypes.NewModuleAddress(name)
; denominations
(declare-fun validDenom (String) Bool)     ; sdk.ValidateDenom(d) == nil
; decoding the canonical encoding gives the address back (bech32 round trip), for non-empty addresses
(assert (forall ((a Addr)) (! (=> (not (= a addr!nil)) (and (okAddr (bech32 a)) (= (decodeAddr (bech32 a)) a))) :pattern ((bech32 a)))))
(assert (= (bech32 addr!nil) ""))
; ledger (x/bank): an abstract sort with an observer (bal) and transformers (move, mint, burn).
; Ledgers are compared structurally (congruence); balances are obtained through the axioms below.
(declare-sort Bank 0)
(declare-fun bal (Bank Addr String) Int)
(declare-fun supply (Bank String) Int)
(declare-fun move (Bank Addr Addr String Int) Bank)    ; debit `from`, then credit `to` (from = to is a net no-op)
(declare-fun mint (Bank Addr String Int) Bank)         ; credit and raise supply
(declare-fun burn (Bank Addr String Int) Bank)         ; debit and lower supply
(declare-fun moveIf (Bool Bank Addr Addr String Int) Bank)   ; conditional move: move when c, identity otherwise
(assert (forall ((c Bool) (b Bank) (f Addr) (t Addr) (d String) (v Int))
  (! (= (moveIf c b f t d v) (ite c (move b f t d v) b)) :pattern ((moveIf c b f t d v)))))
(assert (forall ((c Bool) (b Bank) (f Addr) (t Addr) (d String) (v Int) (a Addr) (e String))
  (! (= (bal (moveIf c b f t d v) a e)
        (+ (bal b a e) (ite (and c (= a t) (= e d)) v 0) (ite (and c (= a f) (= e d)) (- v) 0)))
     :pattern ((bal (moveIf c b f t d v) a e)))))
(assert (forall ((c Bool) (b Bank) (f Addr) (t Addr) (d String) (v Int) (e String))
  (! (= (supply (moveIf c b f t d v) e) (supply b e)) :pattern ((supply (moveIf c b f t d v) e)))))
(assert (forall ((b Bank) (f Addr) (t Addr) (d String) (v Int) (a Addr) (e String))
  (! (= (bal (move b f t d v) a e)
        (+ (bal b a e) (ite (and (= a t) (= e d)) v 0) (ite (and (= a f) (= e d)) (- v) 0)))
     :pattern ((bal (move b f t d v) a e)))))
(assert (forall ((b Bank) (f Addr) (t Addr) (d String) (v Int) (e String))
  (! (= (supply (move b f t d v) e) (supply b e)) :pattern ((supply (move b f t d v) e)))))
(assert (forall ((b Bank) (t Addr) (d String) (v Int) (a Addr) (e String))
  (! (= (bal (mint b t d v) a e) (+ (bal b a e) (ite (and (= a t) (= e d)) v 0))) :pattern ((bal (mint b t d v) a e)))))
(assert (forall ((b Bank) (t Addr) (d String) (v Int) (e String))
  (! (= (supply (mint b t d v) e) (+ (supply b e) (ite (= e d) v 0))) :pattern ((supply (mint b t d v) e)))))
(assert (forall ((b Bank) (f Addr) (d String) (v Int) (a Addr) (e String))
  (! (= (bal (burn b f d v) a e) (- (bal b a e) (ite (and (= a f) (= e d)) v 0))) :pattern ((bal (burn b f d v) a e)))))
(assert (forall ((b Bank) (f Addr) (d String) (v Int) (e String))
  (! (= (supply (burn b f d v) e) (- (supply b e) (ite (= e d) v 0))) :pattern ((supply (burn b f d v) e)))))
; decimal numerals (strconv / fmt %d). dec is uninterpreted; the ground instances the proofs need are given.
(declare-fun dec (Int) String)             ; strconv.FormatUint/FormatInt(n, 10), fmt "%d"
(declare-fun atoiOK (String) Bool)         ; strconv.ParseInt(s, 10, 64) succeeds (sign and leading zeros accepted)
(declare-fun atoiVal (String) Int)
(declare-fun atouOK (String) Bool)         ; strconv.ParseUint(s, 10, 64) succeeds (no sign; leading zeros accepted)
(declare-fun atouVal (String) Int)
(assert (and (= (dec 0) "0") (= (dec 1) "1") (= (dec 2) "2") (= (dec 3) "3") (= (dec 4) "4") (= (dec 5) "5") (= (dec 6) "6") (= (dec 7) "7") (= (dec 8) "8") (= (dec 9) "9")))
(assert (forall ((n Int)) (! (=> (>= n 0) (and (atoiOK (dec n)) (= (atoiVal (dec n)) n) (atouOK (dec n)) (= (atouVal (dec n)) n))) :pattern ((dec n)))))
(declare-fun isChannelID (String) Bool)    ; channeltypes.IsValidChannelID
; root-level structure of a JSON document as functions of its bytes (encoding/json.Unmarshal into map[string]any)
(declare-fun jsonOK (BytesV) Bool)
(declare-fun jsonNumKeys (BytesV) Int)
(declare-fun jsonKeys (BytesV) (Array String Bool))
(declare-fun jsonVals (BytesV) (Array String Iface))
