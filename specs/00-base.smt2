; Uninterpreted functions shared by the assumed contracts.
; integers and strings
(declare-fun okInt (String) Bool)          ; big.Int.SetString(s, 0) succeeds and |v| < 2^256
(declare-fun parseInt (String) Int)        ; the parsed value
(declare-fun intstr (Int) String)          ; big.Int.String
; addresses (sdk.AccAddress as an opaque sort)
(declare-fun bech32 (Addr) String)         ; AccAddress.String()
(declare-fun okAddr (String) Bool)         ; AccAddressFromBech32 succeeds
(declare-fun decodeAddr (String) Addr)     ; its result
(declare-fun moduleAddr (String) Addr)     ; authtypes.NewModuleAddress(name)
; denominations
(declare-fun validDenom (String) Bool)     ; sdk.ValidateDenom(d) == nil
; decoding the canonical encoding gives the address back (bech32 round trip), for non-empty addresses
(assert (forall ((a Addr)) (! (=> (not (= a addr!nil)) (and (okAddr (bech32 a)) (= (decodeAddr (bech32 a)) a))) :pattern ((bech32 a)))))
(assert (= (bech32 addr!nil) ""))
; ledger (x/bank) as a ghost map account -> denom -> amount
(define-fun bal ((b (Array Addr (Array String Int))) (a Addr) (d String)) Int (select (select b a) d))
(define-fun setbal ((b (Array Addr (Array String Int))) (a Addr) (d String) (v Int)) (Array Addr (Array String Int)) (store b a (store (select b a) d v)))
(define-fun move ((b (Array Addr (Array String Int))) (from Addr) (to Addr) (d String) (v Int)) (Array Addr (Array String Int)) (setbal (setbal b from d (- (bal b from d) v)) to d (+ (bal (setbal b from d (- (bal b from d) v)) to d) v)))
