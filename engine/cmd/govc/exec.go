package main

// Symbolic execution of go/ssa function bodies into passive-form verification conditions.

import (
	"fmt"
	"go/constant"
	"go/token"
	"go/types"
	"sort"
	"strings"

	"golang.org/x/tools/go/ssa"
)

type node struct {
	b    *ssa.BasicBlock
	iter int
}

type edgePayload struct {
	cond string
	st   *State
	env  map[ssa.Value]Val
}

type loopInfo struct {
	header  *ssa.BasicBlock
	blocks  map[*ssa.BasicBlock]bool
	latches []*ssa.BasicBlock
	ordinal int
	ann     *LoopAnn
	unroll  int
	foreign *frame // the loop contract was adopted from this enclosing frame (loop moved into an inlined helper)
}

type frame struct {
	vc          *VC
	fn          *ssa.Function
	contract    *Contract
	depth       int
	args        []Val
	entry       *State // function-entry state of the function under verification (for old())
	callerTE    *TEnv
	loops       []*loopInfo
	loopOf      map[*ssa.BasicBlock]*loopInfo
	nameEnv     map[string]Val // params by contract names (for invariants)
	defers      []*ssa.Defer
	catch       *catchCtx
	walkCount   int // ordinal of the next collections Walk call (source order of execution)
	freeVars    []Val
	curCallArgs []ssa.Value
	curEnv      map[ssa.Value]Val
	errCalls    []errCall // C03 schema: fallible calls made by this frame
	exemptC03   bool      // inside a call tree whose error is deliberately swallowed
	callPos     string    // position of the call this frame was inlined at
	order       []nkey
	succs       map[nkey][]nkey
}

type errCall struct {
	callee string
	err    string
	pos    string
	reach  string
}

type nkey struct{ idx, iter int }

type retInfo struct {
	cond string
	vals []Val
	st   *State
}

type runCtx struct {
	region     map[*ssa.BasicBlock]bool // nil: whole function
	header     *ssa.BasicBlock          // speculation: back edges to this header are recorded
	backStates []*State
	rets       []retInfo
}

func (vc *VC) pos(p token.Pos) string {
	if !p.IsValid() {
		return ""
	}
	ps := vc.eng.prog.Fset.Position(p)
	return fmt.Sprintf("%s:%d", strings.TrimPrefix(ps.Filename, vc.eng.repo+"/"), ps.Line)
}

// instKey: normalised key plus "@" and the type arguments, for contracts of particular generic instances.
func instKey(fn *ssa.Function) string {
	ta := fn.TypeArgs()
	if len(ta) == 0 {
		return ""
	}
	var parts []string
	for _, t := range ta {
		parts = append(parts, strings.ReplaceAll(types.TypeString(t, func(p *types.Package) string { return p.Name() }), " ", ""))
	}
	return fnKey(fn) + "@" + strings.Join(parts, ",")
}

func fnKey(fn *ssa.Function) string {
	if o := fn.Origin(); o != nil {
		return normKey(o.String())
	}
	return normKey(fn.String())
}

func shortFn(fn *ssa.Function) string {
	s := fnKey(fn)
	s = strings.ReplaceAll(s, repoMod+"/", "")
	return s
}

// findLoops computes natural loops of fn.
func findLoops(fn *ssa.Function) []*loopInfo {
	var loops []*loopInfo
	byHeader := map[*ssa.BasicBlock]*loopInfo{}
	for _, b := range fn.Blocks {
		for _, s := range b.Succs {
			if s.Dominates(b) { // back edge b -> s
				li := byHeader[s]
				if li == nil {
					li = &loopInfo{header: s, blocks: map[*ssa.BasicBlock]bool{s: true}}
					byHeader[s] = li
					loops = append(loops, li)
				}
				li.latches = append(li.latches, b)
				// collect body: nodes that reach b without passing through s
				stack := []*ssa.BasicBlock{b}
				for len(stack) > 0 {
					x := stack[len(stack)-1]
					stack = stack[:len(stack)-1]
					if li.blocks[x] {
						continue
					}
					li.blocks[x] = true
					for _, p := range x.Preds {
						stack = append(stack, p)
					}
				}
			}
		}
	}
	sort.Slice(loops, func(i, j int) bool { return loops[i].header.Index < loops[j].header.Index })
	for i, l := range loops {
		l.ordinal = i
	}
	return loops
}

// execFunc symbolically executes fn from state st under condition reach.
// It returns the merged results, the final state and the condition of normal return.
func (vc *VC) execFunc(fn *ssa.Function, args []Val, st *State, reach string, depth int, contract *Contract) ([]Val, *State, string) {
	fr := &frame{vc: vc, fn: fn, depth: depth, args: args, contract: contract, loopOf: map[*ssa.BasicBlock]*loopInfo{}, exemptC03: vc.exemptC03 > 0}
	fr.freeVars, vc.nextFreeVars = vc.nextFreeVars, nil
	if contract == nil {
		contract = vc.eng.specs.contracts[fnKey(fn)]
		fr.contract = contract
	}
	fr.loops = findLoops(fn)
	nested := false
	for _, l := range fr.loops {
		for b := range l.blocks {
			if fr.loopOf[b] != nil {
				nested = true
			}
			fr.loopOf[b] = l
		}
		if contract != nil {
			l.ann = contract.Loops[l.ordinal]
		}
		if l.ann != nil && l.ann.Unroll > 0 {
			l.unroll = l.ann.Unroll
		}
	}
	if contract != nil && len(contract.Loops) > 0 {
		// loop contracts whose loop is gone from this function (moved into a helper, merged, rewritten) are
		// offered, in order, to the contract-less loops of the helpers inlined into it (adoptLoopContracts);
		// whatever is not adopted when the function returns is reported as a stale loop contract.
		var ords []int
		for ord := range contract.Loops {
			if ord >= len(fr.loops) {
				ords = append(ords, ord)
			}
		}
		sort.Ints(ords)
		if len(ords) > 0 {
			for _, ord := range ords {
				vc.orphans = append(vc.orphans, &orphanAnn{ann: contract.Loops[ord], owner: fr, ord: ord})
			}
			defer func() {
				var keep []*orphanAnn
				for _, o := range vc.orphans {
					if o.owner != fr {
						keep = append(keep, o)
						continue
					}
					if !o.adopted && vc.quiet == 0 {
						vc.oblige("stale-loop", fmt.Sprintf("%s#stale-loop-contract:loop%d", shortFn(fn), o.ord), vc.pos(fn.Pos()),
							fmt.Sprintf("loop %d of the contract [%s] no longer exists in the function (it has %d loops) and no loop of an inlined helper took it over: the proof has to be redone for the rewritten code", o.ord, contract.Src, len(fr.loops)), "true", "false", nil)
					}
				}
				vc.orphans = keep
			}()
		}
	}
	fr.callPos = vc.nextCallPos
	if contract == nil && depth > 0 && len(fr.loops) > 0 {
		fr.adoptUnrollAtEntry()
	}
	if nested {
		for _, l := range fr.loops {
			l.unroll = 0
		}
		vc.note("nested loops in %s: all loops cut without unrolling", shortFn(fn))
	}
	vc.curFn = append(vc.curFn, fn)
	defer func() { vc.curFn = vc.curFn[:len(vc.curFn)-1] }()
	var sws []string
	if contract != nil {
		sws = contract.Swallows
	}
	vc.swallowStack = append(vc.swallowStack, sws)
	defer func() { vc.swallowStack = vc.swallowStack[:len(vc.swallowStack)-1] }()
	vc.assumeTypeInvs(fn, args, st, reach)

	// name environment for invariants
	fr.nameEnv = map[string]Val{}
	if contract != nil {
		for i, n := range contract.Params {
			if i < len(args) {
				fr.nameEnv[n] = args[i]
			}
		}
	}
	for i, p := range fn.Params {
		if i < len(args) {
			if _, ok := fr.nameEnv[p.Name()]; !ok {
				fr.nameEnv[p.Name()] = args[i]
			}
		}
	}

	fr.entry = st.clone()
	fr.buildGraph()
	incoming := map[nkey][]edgePayload{}
	entryEnv := map[ssa.Value]Val{}
	for i, p := range fn.Params {
		if i < len(args) {
			entryEnv[p] = args[i]
		}
	}
	for i, fv := range fn.FreeVars {
		if i < len(fr.freeVars) {
			entryEnv[fv] = fr.freeVars[i]
		}
	}
	incoming[nkey{0, 0}] = []edgePayload{{cond: reach, st: st.clone(), env: entryEnv}}
	rc := &runCtx{}
	if d, clo := recoverDefer(fn); d != nil {
		fr.catch = &catchCtx{pk: vc.fresh("panicked", sortBool), deferIns: d, closure: clo, heaps: map[string]bool{}, ghosts: map[string]bool{},
			nLog: len(vc.writeLog), nDecl: len(vc.decls)}
		vc.catchStack = append(vc.catchStack, fr.catch)
		vc.note("%s recovers from panics: potential panic points in its dynamic extent lead to its recover path instead of being safety obligations", shortFn(fn))
	}
	fr.run(fr.order, incoming, rc)
	rets := rc.rets
	if c := fr.catch; c != nil {
		vc.catchStack = vc.catchStack[:len(vc.catchStack)-1]
		for i := range rets {
			rets[i].cond = and(rets[i].cond, "(not "+c.pk+")")
		}
		if c.env != nil {
			rets = append(rets, fr.panicPath(c, st, reach)...)
		}
	}

	// merge returns
	if len(rets) == 0 {
		return nil, st, "false"
	}
	var conds []string
	for _, r := range rets {
		conds = append(conds, r.cond)
	}
	if depth == 0 {
		vc.retConds = append([]string{}, conds...)
	}
	retReach := or(conds...)
	retReach = vc.define("ret_"+fn.Name(), sortBool, retReach)
	nres := fn.Signature.Results().Len()
	results := make([]Val, nres)
	for i := 0; i < nres; i++ {
		rt := fn.Signature.Results().At(i).Type()
		var alts []Val
		for _, r := range rets {
			alts = append(alts, r.vals[i])
		}
		results[i] = vc.mergeVals(conds, alts, vc.eng.types.sortOf(rt), fmt.Sprintf("%s_ret%d", fn.Name(), i))
	}
	var pay []edgePayload
	for _, r := range rets {
		pay = append(pay, edgePayload{cond: r.cond, st: r.st})
	}
	final, _, _ := vc.mergeIn(pay, fn.Name()+"_exit", nil)
	return results, final, retReach
}

func and(a, b string) string {
	if a == "true" {
		return b
	}
	if b == "true" {
		return a
	}
	if a == "false" || b == "false" {
		return "false"
	}
	return "(and " + a + " " + b + ")"
}

func or(xs ...string) string {
	var ys []string
	for _, x := range xs {
		if x == "true" {
			return "true"
		}
		if x != "false" {
			ys = append(ys, x)
		}
	}
	if len(ys) == 0 {
		return "false"
	}
	if len(ys) == 1 {
		return ys[0]
	}
	return "(or " + strings.Join(ys, " ") + ")"
}

func (fr *frame) sendEdge(u *ssa.BasicBlock, ui int, v *ssa.BasicBlock, cond string, st *State, env map[ssa.Value]Val,
	incoming map[nkey][]edgePayload, rc *runCtx) {
	vc := fr.vc
	t, kind := fr.edgeTarget(u, ui, v)
	if rc.region != nil && !rc.region[v] {
		return
	}
	// phi evaluation on the edge
	newEnv := make(map[ssa.Value]Val, len(env)+4)
	for k, val := range env {
		newEnv[k] = val
	}
	predIdx := -1
	for i, p := range v.Preds {
		if p == u {
			predIdx = i
			break
		}
	}
	for _, ins := range v.Instrs {
		phi, ok := ins.(*ssa.Phi)
		if !ok {
			break
		}
		newEnv[phi] = fr.operand(phi.Edges[predIdx], env)
	}
	switch kind {
	case "unwind":
		l := fr.loopOf[v]
		vc.oblige("unwind", fmt.Sprintf("%s#unwind:loop%d", shortFn(fr.fn), l.ordinal), vc.pos(l.header.Instrs[0].Pos()),
			fmt.Sprintf("loop %d needs at most %d iterations", l.ordinal, l.unroll), cond, "false", nil)
		return
	case "back":
		l := fr.loopOf[v]
		if rc.header == v {
			rc.backStates = append(rc.backStates, st.clone())
			return
		}
		fr.loopStep(l, st, newEnv, cond)
		return
	}
	cs := vc.define("e_"+fr.fn.Name(), sortBool, cond)
	incoming[t] = append(incoming[t], edgePayload{cond: cs, st: st.clone(), env: newEnv})
}

// mergeIn merges incoming edge payloads into one state.
func (vc *VC) mergeIn(ins []edgePayload, hint string, target *ssa.BasicBlock) (*State, map[ssa.Value]Val, string) {
	if len(ins) == 1 {
		return ins[0].st, ins[0].env, ins[0].cond
	}
	var conds []string
	for _, p := range ins {
		conds = append(conds, p.cond)
	}
	reach := vc.define("r_"+hint, sortBool, or(conds...))
	st := &State{heaps: map[string]string{}, ghosts: map[string]string{}}
	// heaps
	keys := map[string]bool{}
	for _, p := range ins {
		for k := range p.st.heaps {
			keys[k] = true
		}
	}
	sortedKeys := func(m map[string]bool) []string {
		var ks []string
		for k := range m {
			ks = append(ks, k)
		}
		sort.Strings(ks)
		return ks
	}
	for _, k := range sortedKeys(keys) {
		var alts []string
		for _, p := range ins {
			alts = append(alts, vc.heapGet(p.st, k, vc.heapSorts[k]))
		}
		st.heaps[k] = vc.mergeTerms(conds, alts, vc.heapSorts[k], k+"~m")
	}
	gkeys := map[string]bool{}
	for _, p := range ins {
		for k := range p.st.ghosts {
			gkeys[k] = true
		}
	}
	for _, k := range sortedKeys(gkeys) {
		var alts []string
		for _, p := range ins {
			alts = append(alts, vc.ghostGet(p.st, k))
		}
		st.ghosts[k] = vc.mergeTerms(conds, alts, vc.eng.specs.ghostSort[k], "G!"+sanitize(k)+"~m")
	}
	var allocs []string
	for _, p := range ins {
		allocs = append(allocs, p.st.alloc)
	}
	st.alloc = vc.mergeTerms(conds, allocs, sortInt, "alloc~m")
	// env
	var env map[ssa.Value]Val
	if ins[0].env != nil {
		env = map[ssa.Value]Val{}
		for i, p := range ins {
			for k := range p.env {
				if _, done := env[k]; done {
					continue
				}
				if target != nil && !vc.eng.liveIn(target)[k] {
					continue // dead at the merge point
				}
				var alts []Val
				var cs []string
				same := true
				for j, q := range ins {
					v, ok := q.env[k]
					if !ok {
						continue
					}
					alts = append(alts, v)
					cs = append(cs, conds[j])
					if !valEqual(v, p.env[k]) {
						same = false
					}
				}
				_ = i
				if same {
					env[k] = p.env[k]
				} else {
					env[k] = vc.mergeVals(cs, alts, vc.eng.types.sortOf(k.Type()), fmt.Sprintf("%s@%s", k.Name(), hint))
				}
			}
		}
	}
	return st, env, reach
}

func valEqual(a, b Val) bool {
	if (a.av == nil) != (b.av == nil) || (a.av != nil && *a.av != *b.av) {
		return false
	}
	if a.t != b.t || len(a.tup) != len(b.tup) || (a.ip == nil) != (b.ip == nil) {
		return false
	}
	for i := range a.tup {
		if !valEqual(a.tup[i], b.tup[i]) {
			return false
		}
	}
	if a.ip != nil {
		if a.ip.heap != b.ip.heap || a.ip.ref != b.ip.ref || a.ip.idx != b.ip.idx || len(a.ip.path) != len(b.ip.path) {
			return false
		}
		for i := range a.ip.path {
			if a.ip.path[i] != b.ip.path[i] {
				return false
			}
		}
	}
	return true
}

func (vc *VC) mergeTerms(conds, alts []string, sort, hint string) string {
	same := true
	for _, a := range alts[1:] {
		if a != alts[0] {
			same = false
		}
	}
	if same {
		return alts[0]
	}
	t := alts[len(alts)-1]
	for i := len(alts) - 2; i >= 0; i-- {
		if alts[i] == t {
			continue
		}
		t = "(ite " + conds[i] + " " + alts[i] + " " + t + ")"
	}
	return vc.define(hint, sort, t)
}

func (vc *VC) mergeVals(conds []string, alts []Val, sort, hint string) Val {
	if len(alts) == 0 {
		return Val{}
	}
	same := true
	for _, a := range alts[1:] {
		if !valEqual(a, alts[0]) {
			same = false
		}
	}
	if same {
		return alts[0]
	}
	if len(alts[0].tup) > 0 {
		out := Val{tup: make([]Val, len(alts[0].tup))}
		for i := range alts[0].tup {
			var sub []Val
			for _, a := range alts {
				if i < len(a.tup) {
					sub = append(sub, a.tup[i])
				} else {
					sub = append(sub, Val{})
				}
			}
			out.tup[i] = vc.mergeVals(conds, sub, "", hint)
		}
		return out
	}
	for _, a := range alts {
		if a.ip != nil {
			vc.unsupported["merge of interior pointers ("+hint+")"] = true
			return Val{t: "0"}
		}
	}
	if sort == "" || sort == "TUPLE" {
		// unknown sort: cannot merge; pick a fresh uninterpreted placeholder is impossible, keep first
		return alts[0]
	}
	var ts []string
	for _, a := range alts {
		if a.t == "" {
			return alts[0]
		}
		ts = append(ts, a.t)
	}
	return Val{t: vc.mergeTerms(conds, ts, sort, hint)}
}

// ---------------------------------------------------------------- operands and constants

func (fr *frame) operand(v ssa.Value, env map[ssa.Value]Val) Val {
	vc := fr.vc
	switch x := v.(type) {
	case *ssa.Const:
		return vc.constVal(x)
	case *ssa.Global:
		return Val{t: vc.globalAddr(x)}
	case *ssa.Function:
		name := "FN!" + sanitize(shortFn(x))
		vc.declare(name, sortInt)
		return Val{t: name}
	case *ssa.Builtin:
		return Val{t: "0"}
	}
	if val, ok := env[v]; ok {
		return val
	}
	// free variables or values from unexecuted paths
	vc.note("value %s (%T) of %s has no symbolic value; havocked", v.Name(), v, shortFn(fr.fn))
	return vc.havocVal(v.Type(), v.Name(), "")
}

func (vc *VC) globalAddr(g *ssa.Global) string {
	name := "GA!" + sanitize(strings.ReplaceAll(g.String(), repoMod+"/", ""))
	vc.declare(name, sortInt)
	return name
}

func (vc *VC) globalValue(g *ssa.Global) string {
	if g.Pkg != nil {
		if c, ok := vc.eng.constGlobals[g.Pkg.Pkg.Path()+"."+g.Name()]; ok {
			vc.usedSpecs["package-level variables initialised with constants keep their value (no store outside init: scanned)"] = true
			return c
		}
	}
	et := g.Type().(*types.Pointer).Elem()
	name := "GV!" + sanitize(strings.ReplaceAll(g.String(), repoMod+"/", ""))
	s := vc.eng.types.sortOf(et)
	if !vc.declared[name] {
		vc.declare(name, s)
		for _, f := range vc.typeFacts(name, et, "") {
			vc.global(f)
		}
		// registered error sentinels and other pointer-typed globals are non-nil, distinct objects
		if _, ok := types.Unalias(et).Underlying().(*types.Pointer); ok {
			vc.global("(> " + name + " 0)")
			vc.global("(= (gid " + name + ") " + fmt.Sprint(vc.eng.globalID(g.String())) + ")")
		}
	}
	return name
}

func (vc *VC) constVal(c *ssa.Const) Val {
	t := types.Unalias(c.Type())
	reg := vc.eng.types
	if c.Value == nil {
		return Val{t: reg.zero(t)}
	}
	switch c.Value.Kind() {
	case constant.Bool:
		if constant.BoolVal(c.Value) {
			return Val{t: "true"}
		}
		return Val{t: "false"}
	case constant.String:
		return Val{t: smtString(constant.StringVal(c.Value))}
	case constant.Int:
		return Val{t: smtInt(c.Value.ExactString())}
	case constant.Float:
		return Val{t: "0.0"}
	}
	return Val{t: reg.zero(t)}
}

// havocVal returns a fresh unconstrained value of type t (with type facts).
func (vc *VC) havocVal(t types.Type, hint, alloc string) Val {
	t = types.Unalias(t)
	if tup, ok := t.(*types.Tuple); ok {
		v := Val{tup: make([]Val, tup.Len())}
		for i := 0; i < tup.Len(); i++ {
			v.tup[i] = vc.havocVal(tup.At(i).Type(), fmt.Sprintf("%s_%d", hint, i), alloc)
		}
		return v
	}
	s := vc.eng.types.sortOf(t)
	n := vc.fresh(hint, s)
	vc.assumeType("true", n, t, alloc)
	return Val{t: n}
}

// ---------------------------------------------------------------- instructions

func (fr *frame) execInstr(ins ssa.Instruction, st *State, env map[ssa.Value]Val, alive string) string {
	vc := fr.vc
	reg := vc.eng.types
	op := func(v ssa.Value) Val { return fr.operand(v, env) }
	safety := func(kind, what string, pos token.Pos, cond string) {
		vc.safetyCheck(fmt.Sprintf("%s#safety:%s(%s)", shortFn(fr.fn), kind, what), vc.pos(pos), kind+" "+what, alive, cond, st)
	}
	switch x := ins.(type) {
	case *ssa.DebugRef:
		return alive
	case *ssa.Alloc:
		ref := vc.newRef(st, "new_"+x.Comment)
		et := x.Type().(*types.Pointer).Elem()
		fr.zeroInit(st, ref, et)
		env[x] = Val{t: ref}
	case *ssa.FieldAddr:
		base := op(x.X)
		pt := types.Unalias(x.X.Type()).Underlying().(*types.Pointer)
		si := reg.structInfoOf(pt.Elem())
		if si == nil {
			if key, vsort, ftyp, ok := reg.opaqueField(pt.Elem(), x.Field); ok && base.ip == nil {
				// a field of a struct of another module that is kept opaque (collections): its own heap, keyed
				// by the object, so that the code and the contracts read the same value
				safety("nil-deref", "opaque."+key, x.Pos(), "(not (= "+base.t+" 0))")
				env[x] = Val{ip: &IPtr{root: rootField, heap: key, vsort: vsort, ref: base.t, rootT: ftyp}}
				return alive
			}
			vc.unsupported[fmt.Sprintf("field address in opaque struct %s at %s", pt.Elem(), vc.pos(x.Pos()))] = true
			env[x] = Val{ip: &IPtr{root: rootCell, heap: "C!opaque", vsort: reg.sortOf(x.Type().(*types.Pointer).Elem()), ref: vc.fresh("opq", sortInt), rootT: x.Type().(*types.Pointer).Elem()}}
			return alive
		}
		if base.ip != nil {
			np := *base.ip
			np.path = append(append([]pathStep{}, base.ip.path...), pathStep{si, x.Field})
			env[x] = Val{ip: &np}
		} else {
			safety("nil-deref", fieldDesc(x.X, si, x.Field), x.Pos(), "(not (= "+base.t+" 0))")
			env[x] = Val{ip: &IPtr{root: rootField, heap: heapKeyField(si, x.Field), vsort: si.fields[x.Field].sort, ref: base.t, rootT: si.fields[x.Field].typ}}
		}
	case *ssa.Field:
		base := op(x.X)
		si := reg.structInfoOf(x.X.Type())
		if si == nil {
			env[x] = vc.havocVal(x.Type(), x.Name(), st.alloc)
			return alive
		}
		t := "(" + accessor(si, x.Field) + " " + base.t + ")"
		vc.assumeType(alive, t, x.Type(), "")
		env[x] = Val{t: t}
	case *ssa.IndexAddr:
		base := op(x.X)
		idx := op(x.Index).t
		switch bt := types.Unalias(x.X.Type()).Underlying().(type) {
		case *types.Slice:
			es := reg.sortOf(bt.Elem())
			vc.noteIndexTerm(idx)
			safety("index", x.X.Name(), x.Pos(), "(and (<= 0 "+idx+") (< "+idx+" (slen "+base.t+")))")
			env[x] = Val{ip: &IPtr{root: rootElem, heap: heapKeyElem(es), vsort: es, ref: "(sref " + base.t + ")", idx: "(+ (soff " + base.t + ") " + idx + ")", rootT: bt.Elem()}}
		case *types.Pointer:
			at := types.Unalias(bt.Elem()).Underlying().(*types.Array)
			es := reg.sortOf(at.Elem())
			if base.ip != nil {
				vc.unsupported["index into array inside a struct at "+vc.pos(x.Pos())] = true
				env[x] = Val{ip: &IPtr{root: rootElem, heap: heapKeyElem(es), vsort: es, ref: vc.fresh("opq", sortInt), idx: idx, rootT: at.Elem()}}
				return alive
			}
			safety("nil-deref", x.X.Name(), x.Pos(), "(not (= "+base.t+" 0))")
			safety("index", x.X.Name(), x.Pos(), fmt.Sprintf("(and (<= 0 %s) (< %s %d))", idx, idx, at.Len()))
			env[x] = Val{ip: &IPtr{root: rootElem, heap: heapKeyElem(es), vsort: es, ref: base.t, idx: idx, rootT: at.Elem()}}
		}
	case *ssa.Index:
		base := op(x.X)
		idx := op(x.Index).t
		switch bt := types.Unalias(x.X.Type()).Underlying().(type) {
		case *types.Array:
			safety("index", x.X.Name(), x.Pos(), fmt.Sprintf("(and (<= 0 %s) (< %s %d))", idx, idx, bt.Len()))
			env[x] = Val{t: "(select " + base.t + " " + idx + ")"}
		case *types.Basic: // string
			safety("index", x.X.Name(), x.Pos(), "(and (<= 0 "+idx+") (< "+idx+" (str.len "+base.t+")))")
			env[x] = Val{t: "(str.to_code (str.at " + base.t + " " + idx + "))"}
		default:
			env[x] = vc.havocVal(x.Type(), x.Name(), st.alloc)
		}
	case *ssa.UnOp:
		fr.execUnOp(x, st, env, alive, safety)
	case *ssa.Store:
		addr := op(x.Addr)
		v := op(x.Val)
		et := x.Addr.Type().Underlying().(*types.Pointer).Elem()
		fr.storeThrough(st, addr, et, v, alive, x.Pos(), safety)
	case *ssa.BinOp:
		env[x] = fr.execBinOp(x, op(x.X), op(x.Y), alive, safety)
	case *ssa.Phi:
	case *ssa.Extract:
		tv := op(x.Tuple)
		if x.Index < len(tv.tup) {
			env[x] = tv.tup[x.Index]
		} else {
			env[x] = vc.havocVal(x.Type(), x.Name(), st.alloc)
		}
	case *ssa.ChangeType:
		if reg.sortOf(x.X.Type()) != reg.sortOf(x.Type()) {
			// e.g. sdk.AccAddress (abstract sort) <-> []byte: the value changes representation in the model;
			// the result is left unconstrained (sound: nothing is assumed about it)
			vc.note("representation change %s -> %s at %s: result unconstrained", x.X.Type(), x.Type(), vc.pos(x.Pos()))
			env[x] = vc.havocVal(x.Type(), x.Name(), st.alloc)
		} else {
			env[x] = op(x.X)
		}
	case *ssa.ChangeInterface:
		env[x] = op(x.X)
	case *ssa.Convert:
		env[x] = fr.execConvert(x, op(x.X), st, alive, safety)
	case *ssa.MultiConvert:
		env[x] = vc.havocVal(x.Type(), x.Name(), st.alloc)
	case *ssa.SliceToArrayPointer:
		v := op(x.X)
		at := x.Type().(*types.Pointer).Elem().Underlying().(*types.Array)
		safety("slice-to-array", x.X.Name(), x.Pos(), fmt.Sprintf("(>= (slen %s) %d)", v.t, at.Len()))
		es := reg.sortOf(at.Elem())
		env[x] = Val{t: "(sref " + v.t + ")", av: &arrView{slice: v.t, n: at.Len(), es: es}}
	case *ssa.MakeInterface:
		v := op(x.X)
		env[x] = Val{t: fr.makeIface(x.X.Type(), v)}
	case *ssa.TypeAssert:
		env[x] = fr.execTypeAssert(x, op(x.X), alive, safety)
	case *ssa.MakeSlice:
		ln := op(x.Len).t
		ref := vc.newRef(st, "mkslice")
		st2 := x.Type().Underlying().(*types.Slice)
		es := reg.sortOf(st2.Elem())
		key := heapKeyElem(es)
		hs := "(Array Int (Array Int " + es + "))"
		h := vc.heapGet(st, key, hs)
		vc.logWrite(key, ref)
		vc.heapSet(st, key, hs, "(store "+h+" "+ref+" "+vc.zeroArray(es, reg.zero(st2.Elem()))+")")
		safety("makeslice-len", x.Name(), x.Pos(), "(>= "+ln+" 0)")
		env[x] = Val{t: "(mkSlice " + ref + " 0 " + ln + ")"}
	case *ssa.MakeMap:
		ref := vc.newRef(st, "mkmap")
		mt := x.Type().Underlying().(*types.Map)
		pk, ps, _, _ := fr.mapHeaps(mt)
		h := vc.heapGet(st, pk, ps)
		vc.logWrite(pk, ref)
		vc.heapSet(st, pk, ps, "(store "+h+" "+ref+" ((as const (Array "+reg.sortOf(mt.Key())+" Bool)) false))")
		env[x] = Val{t: ref}
	case *ssa.MapUpdate:
		m := op(x.Map)
		k := op(x.Key)
		v := op(x.Value)
		mt := x.Map.Type().Underlying().(*types.Map)
		pk, ps, vk, vs := fr.mapHeaps(mt)
		safety("nil-map-write", x.Map.Name(), x.Pos(), "(not (= "+m.t+" 0))")
		h := vc.heapGet(st, pk, ps)
		vc.logWrite(pk, m.t)
		vc.logWrite(vk, m.t)
		vc.heapSet(st, pk, ps, "(store "+h+" "+m.t+" (store (select "+h+" "+m.t+") "+k.t+" true))")
		hv := vc.heapGet(st, vk, vs)
		vc.heapSet(st, vk, vs, "(store "+hv+" "+m.t+" (store (select "+hv+" "+m.t+") "+k.t+" "+v.t+"))")
	case *ssa.Lookup:
		env[x] = fr.execLookup(x, op(x.X), op(x.Index), st, alive, safety)
	case *ssa.Slice:
		env[x] = fr.execSlice(x, st, env, alive, safety)
	case *ssa.MakeClosure:
		// closures are opaque values; bindings are remembered for the iterator rule
		name := vc.fresh("closure", sortInt)
		vc.assume("true", "(> "+name+" 0)")
		env[x] = Val{t: name}
		vc.eng.closures[name] = &closureInfo{fn: x.Fn.(*ssa.Function), bindings: func() []Val {
			var bs []Val
			for _, b := range x.Bindings {
				bs = append(bs, op(b))
			}
			return bs
		}()}
	case *ssa.Call:
		v, a := fr.execCall(x, x.Common(), st, env, alive)
		env[x] = v
		return a
	case *ssa.Defer:
		fr.defers = append(fr.defers, x)
		if c := fr.catch; c != nil && c.deferIns == x {
			if cv, ok := env[x.Call.Value]; ok {
				if ci := vc.eng.closures[cv.t]; ci != nil {
					c.bindings = ci.bindings
					c.env = make(map[ssa.Value]Val, len(env))
					for k, v := range env {
						c.env[k] = v
					}
				}
			}
			return alive
		}
		vc.note("defer in %s: deferred call effects are not modelled (only iterator Close calls occur in the repository)", shortFn(fr.fn))
	case *ssa.RunDefers:
		if c := fr.catch; c != nil && c.env != nil {
			// normal return: the deferred closure runs with recover() == nil
			vc.recoverVals = append(vc.recoverVals, "(mkIface 0 0)")
			out, ret := vc.runClosure(c.closure, c.bindings, st, alive, fr.depth+1)
			vc.recoverVals = vc.recoverVals[:len(vc.recoverVals)-1]
			fr.setState(st, out)
			return ret
		}
	case *ssa.Go, *ssa.Send, *ssa.Select:
		vc.unsupported[fmt.Sprintf("concurrency instruction %T at %s", ins, vc.pos(ins.Pos()))] = true
	case *ssa.Range:
		vc.unsupported["range over map/string at "+vc.pos(x.Pos())] = true
		env[x] = Val{t: "0"}
	case *ssa.Next:
		vc.unsupported["range over map/string at "+vc.pos(x.Pos())] = true
		env[x] = vc.havocVal(x.Type(), x.Name(), st.alloc)
	case *ssa.MakeChan:
		env[x] = Val{t: "0"}
	default:
		vc.unsupported[fmt.Sprintf("instruction %T at %s", ins, vc.pos(ins.Pos()))] = true
		if v, ok := ins.(ssa.Value); ok {
			env[v] = vc.havocVal(v.Type(), v.Name(), st.alloc)
		}
	}
	return alive
}

func (fr *frame) runDefers(st *State, alive *string) {}

func fieldDesc(x ssa.Value, si *structInfo, f int) string {
	n := x.Name()
	if p, ok := x.(*ssa.Parameter); ok {
		n = p.Name()
	}
	_ = n
	return si.sort[2:] + "." + si.fields[f].name
}

func (fr *frame) zeroInit(st *State, ref string, et types.Type) {
	vc := fr.vc
	reg := vc.eng.types
	et = types.Unalias(et)
	if si := reg.structInfoOf(et); si != nil {
		for i, f := range si.fields {
			vc.writeField(st, ref, si, i, reg.zero(f.typ))
		}
		return
	}
	if at, ok := et.Underlying().(*types.Array); ok {
		es := reg.sortOf(at.Elem())
		key := heapKeyElem(es)
		hs := "(Array Int (Array Int " + es + "))"
		h := vc.heapGet(st, key, hs)
		vc.logWrite(key, ref)
		vc.heapSet(st, key, hs, "(store "+h+" "+ref+" "+vc.zeroArray(es, reg.zero(at.Elem()))+")")
		return
	}
	s := reg.sortOf(et)
	key := heapKeyCell(s)
	hs := "(Array Int " + s + ")"
	h := vc.heapGet(st, key, hs)
	vc.heapSet(st, key, hs, "(store "+h+" "+ref+" "+reg.zero(et)+")")
}

type safetyFn func(kind, what string, pos token.Pos, cond string)

// loadThrough reads the value of type et through pointer value p.
func (fr *frame) loadThrough(st *State, p Val, et types.Type, alive string) Val {
	vc := fr.vc
	reg := vc.eng.types
	et = types.Unalias(et)
	if p.av != nil {
		fnm := fmt.Sprintf("arr%d!%s", p.av.n, sanitize(p.av.es))
		vc.declareRaw(fnm, fmt.Sprintf("(declare-fun %s ((Array Int %s) Int) (Array Int %s))", fnm, p.av.es, p.av.es))
		return Val{t: fmt.Sprintf("(%s %s (soff %s))", fnm, vc.sliceContent(st, p.av.slice, p.av.es), p.av.slice)}
	}
	if p.ip != nil {
		t := vc.readLoc(st, p.ip)
		vc.assumeType(alive, t, et, st.alloc)
		return Val{t: t}
	}
	if si := reg.structInfoOf(et); si != nil {
		return Val{t: vc.loadStruct(st, p.t, si)}
	}
	if at, ok := et.Underlying().(*types.Array); ok {
		es := reg.sortOf(at.Elem())
		h := vc.heapGet(st, heapKeyElem(es), "(Array Int (Array Int "+es+"))")
		return Val{t: "(select " + h + " " + p.t + ")"}
	}
	s := reg.sortOf(et)
	h := vc.heapGet(st, heapKeyCell(s), "(Array Int "+s+")")
	t := "(select " + h + " " + p.t + ")"
	vc.assumeType(alive, t, et, st.alloc)
	return Val{t: t}
}

func (fr *frame) storeThrough(st *State, p Val, et types.Type, v Val, alive string, pos token.Pos, safety safetyFn) {
	vc := fr.vc
	reg := vc.eng.types
	et = types.Unalias(et)
	if v.ip != nil {
		if si := reg.structInfoOf(v.ip.targetType()); si != nil {
			// a pointer to a struct embedded by value escapes into memory: modelled by moving the embedded
			// struct into an object of its own (the parent's copy is not read again on the verified paths)
			nr := vc.newRef(st, "embedded")
			vc.storeStruct(st, nr, si, vc.readLoc(st, v.ip))
			vc.note("pointer to embedded struct %s escapes at %s: modelled as a separate object holding a copy", si.sort, vc.pos(pos))
			v = Val{t: nr}
		} else {
			vc.unsupported["interior pointer stored to memory at "+vc.pos(pos)] = true
			v = Val{t: vc.fresh("escaped_ip", sortInt)}
		}
	}
	if p.ip != nil {
		vc.writeLocGuarded(st, p.ip, v.t, alive)
		return
	}
	safety("nil-deref", "store", pos, "(not (= "+p.t+" 0))")
	if si := reg.structInfoOf(et); si != nil {
		for i := range si.fields {
			ip := &IPtr{root: rootField, heap: heapKeyField(si, i), vsort: si.fields[i].sort, ref: p.t, rootT: si.fields[i].typ}
			vc.writeLocGuarded(st, ip, "("+accessor(si, i)+" "+v.t+")", alive)
		}
		return
	}
	if at, ok := et.Underlying().(*types.Array); ok {
		es := reg.sortOf(at.Elem())
		key := heapKeyElem(es)
		hs := "(Array Int (Array Int " + es + "))"
		h := vc.heapGet(st, key, hs)
		vc.logWrite(key, p.t)
		vc.heapSet(st, key, hs, "(store "+h+" "+p.t+" "+v.t+")")
		return
	}
	s := reg.sortOf(et)
	ip := &IPtr{root: rootCell, heap: heapKeyCell(s), vsort: s, ref: p.t, rootT: et}
	vc.writeLocGuarded(st, ip, v.t, alive)
}

// Writes happen inside a block whose state is private to the block, so no guard is needed:
// the state is merged with ite at joins.
func (vc *VC) writeLocGuarded(st *State, ip *IPtr, v string, alive string) {
	vc.writeLoc(st, ip, v)
}

func (fr *frame) execUnOp(x *ssa.UnOp, st *State, env map[ssa.Value]Val, alive string, safety safetyFn) {
	vc := fr.vc
	v := fr.operand(x.X, env)
	switch x.Op {
	case token.MUL: // load
		if g, ok := x.X.(*ssa.Global); ok {
			env[x] = Val{t: vc.globalValue(g)}
			return
		}
		et := x.X.Type().Underlying().(*types.Pointer).Elem()
		if v.ip == nil {
			safety("nil-deref", "load "+x.X.Name(), x.Pos(), "(not (= "+v.t+" 0))")
		}
		env[x] = fr.loadThrough(st, v, et, alive)
	case token.NOT:
		env[x] = Val{t: "(not " + v.t + ")"}
	case token.SUB:
		env[x] = Val{t: wrapInt("(- "+v.t+")", x.Type())}
	case token.XOR:
		env[x] = vc.havocVal(x.Type(), x.Name(), st.alloc)
	case token.ARROW:
		vc.unsupported["channel receive at "+vc.pos(x.Pos())] = true
		env[x] = vc.havocVal(x.Type(), x.Name(), st.alloc)
	default:
		env[x] = vc.havocVal(x.Type(), x.Name(), st.alloc)
	}
}

func isStringType(t types.Type) bool {
	b, ok := types.Unalias(t).Underlying().(*types.Basic)
	return ok && b.Info()&types.IsString != 0
}
func isIntType(t types.Type) bool {
	b, ok := types.Unalias(t).Underlying().(*types.Basic)
	return ok && b.Info()&types.IsInteger != 0
}

func (fr *frame) execBinOp(x *ssa.BinOp, a, b Val, alive string, safety safetyFn) Val {
	vc := fr.vc
	reg := vc.eng.types
	t := x.X.Type()
	switch x.Op {
	case token.EQL, token.NEQ:
		eq := fr.eqTerm(t, x.Y.Type(), a, b)
		if x.Op == token.NEQ {
			eq = "(not " + eq + ")"
		}
		return Val{t: eq}
	case token.LSS, token.LEQ, token.GTR, token.GEQ:
		ops := map[token.Token]string{token.LSS: "<", token.LEQ: "<=", token.GTR: ">", token.GEQ: ">="}
		if isStringType(t) {
			sops := map[token.Token]string{token.LSS: "str.<", token.LEQ: "str.<="}
			if o, ok := sops[x.Op]; ok {
				return Val{t: "(" + o + " " + a.t + " " + b.t + ")"}
			}
			if x.Op == token.GTR {
				return Val{t: "(str.< " + b.t + " " + a.t + ")"}
			}
			return Val{t: "(str.<= " + b.t + " " + a.t + ")"}
		}
		return Val{t: "(" + ops[x.Op] + " " + a.t + " " + b.t + ")"}
	case token.ADD:
		if isStringType(t) {
			return Val{t: "(str.++ " + a.t + " " + b.t + ")"}
		}
		if isIntType(t) {
			return Val{t: wrapInt("(+ "+a.t+" "+b.t+")", x.Type())}
		}
	case token.SUB:
		if isIntType(t) {
			return Val{t: wrapInt("(- "+a.t+" "+b.t+")", x.Type())}
		}
	case token.MUL:
		if isIntType(t) {
			return Val{t: wrapInt(mulTerm(a.t, b.t), x.Type())}
		}
	case token.QUO:
		if isIntType(t) {
			safety("div-by-zero", x.Name(), x.Pos(), "(not (= "+b.t+" 0))")
			return Val{t: wrapInt("(tdiv "+a.t+" "+b.t+")", x.Type())}
		}
	case token.REM:
		if isIntType(t) {
			safety("div-by-zero", x.Name(), x.Pos(), "(not (= "+b.t+" 0))")
			return Val{t: "(tmod " + a.t + " " + b.t + ")"}
		}
	case token.LAND:
		return Val{t: "(and " + a.t + " " + b.t + ")"}
	case token.LOR:
		return Val{t: "(or " + a.t + " " + b.t + ")"}
	}
	_ = reg
	return vc.havocVal(x.Type(), x.Name(), "")
}

func (fr *frame) eqTerm(tx, ty types.Type, a, b Val) string {
	vc := fr.vc
	if a.ip != nil || b.ip != nil {
		// the address of a field or element is never nil
		if (a.ip != nil && b.ip == nil && b.t == "0") || (b.ip != nil && a.ip == nil && a.t == "0") {
			return "false"
		}
		vc.unsupported["comparison of interior pointers"] = true
		return vc.fresh("ipcmp", sortBool)
	}
	sx := vc.eng.types.sortOf(tx)
	sy := vc.eng.types.sortOf(ty)
	if sx == sortIface && sy == sortIface {
		// comparison against nil interface is by tag; general comparison is structural
		if b.t == "(mkIface 0 0)" {
			return "(= (itag " + a.t + ") 0)"
		}
		if a.t == "(mkIface 0 0)" {
			return "(= (itag " + b.t + ") 0)"
		}
		return "(= " + a.t + " " + b.t + ")"
	}
	if sx == sortSlice {
		if b.t == "(mkSlice 0 0 0)" {
			return "(= (sref " + a.t + ") 0)"
		}
		if a.t == "(mkSlice 0 0 0)" {
			return "(= (sref " + b.t + ") 0)"
		}
	}
	return "(= " + a.t + " " + b.t + ")"
}

func (fr *frame) execConvert(x *ssa.Convert, v Val, st *State, alive string, safety safetyFn) Val {
	vc := fr.vc
	from, to := types.Unalias(x.X.Type()), types.Unalias(x.Type())
	switch {
	case isIntType(from) && isIntType(to):
		lo1, hi1, _ := intRange(from)
		lo2, hi2, _ := intRange(to)
		if lo1 == lo2 && hi1 == hi2 {
			return v
		}
		fb, fs, _ := intBits(from)
		tb, ts, _ := intBits(to)
		if (fs == ts && fb <= tb) || (!fs && ts && fb < tb) {
			return v // widening preserves value
		}
		return Val{t: wrapInt(v.t, to)}
	case isStringType(from) && isStringType(to):
		return v
	case isStringType(to):
		if vc.eng.types.sortOf(from) == sortAddr {
			// sdk.AccAddress is an abstract value: its raw bytes as a string are a function of the address
			vc.declareRaw("addr2str", "(declare-fun addr2str (Addr) String)")
			return Val{t: "(addr2str " + v.t + ")"}
		}
		if _, ok := from.Underlying().(*types.Slice); ok {
			return Val{t: "(bytes2str " + vc.bytesVal(st, v.t) + ")"}
		}
		if isIntType(from) {
			return vc.havocVal(to, x.Name(), "")
		}
	case isStringType(from):
		if sl, ok := to.Underlying().(*types.Slice); ok && vc.eng.types.sortOf(sl.Elem()) == sortInt {
			// fresh byte slice holding the string's bytes
			ref := vc.newRef(st, "str2bytes")
			key := heapKeyElem(sortInt)
			hs := "(Array Int (Array Int Int))"
			h := vc.heapGet(st, key, hs)
			vc.logWrite(key, ref)
			vc.heapSet(st, key, hs, "(store "+h+" "+ref+" (str2bytes "+v.t+"))")
			res := "(mkSlice " + ref + " 0 (str.len " + v.t + "))"
			vc.assume("true", "(= (bytes2str (bytesval (str2bytes "+v.t+") 0 (str.len "+v.t+"))) "+v.t+")")
			return Val{t: res}
		}
	}
	// slice -> array conversion
	if at, ok := to.Underlying().(*types.Array); ok {
		if _, ok2 := from.Underlying().(*types.Slice); ok2 {
			safety("slice-to-array", x.X.Name(), x.Pos(), fmt.Sprintf("(>= (slen %s) %d)", v.t, at.Len()))
			es := vc.eng.types.sortOf(at.Elem())
			fnm := fmt.Sprintf("arr%d!%s", at.Len(), sanitize(es))
			vc.declareRaw(fnm, fmt.Sprintf("(declare-fun %s ((Array Int %s) Int) (Array Int %s))", fnm, es, es))
			return Val{t: fmt.Sprintf("(%s %s (soff %s))", fnm, vc.sliceContent(st, v.t, es), v.t)}
		}
	}
	if vc.eng.types.sortOf(from) == vc.eng.types.sortOf(to) {
		return v
	}
	vc.note("conversion %s -> %s havocked at %s", from, to, vc.pos(x.Pos()))
	return vc.havocVal(to, x.Name(), st.alloc)
}

// bytesVal: the abstract byte-string value of a []byte slice in state st.
func (vc *VC) bytesVal(st *State, s string) string {
	return "(bytesval " + vc.sliceContent(st, s, "Int") + " (soff " + s + ") (slen " + s + "))"
}

// sliceContent returns the backing array term of a slice value.
func (vc *VC) sliceContent(st *State, s string, elemSort string) string {
	h := vc.heapGet(st, heapKeyElem(elemSort), "(Array Int (Array Int "+elemSort+"))")
	return "(select " + h + " (sref " + s + "))"
}

func (fr *frame) makeIface(t types.Type, v Val) string {
	vc := fr.vc
	reg := vc.eng.types
	t = types.Unalias(t)
	if _, ok := t.Underlying().(*types.Interface); ok {
		return v.t
	}
	tag := reg.tagOf(t)
	s := reg.sortOf(t)
	if _, ok := t.Underlying().(*types.Pointer); ok && v.ip == nil {
		return "(mkIface " + tag + " " + v.t + ")"
	}
	if v.ip != nil {
		vc.unsupported["interior pointer boxed into interface"] = true
		return "(mkIface " + tag + " " + vc.fresh("boxed_ip", sortInt) + ")"
	}
	if s == sortInt {
		return "(mkIface " + tag + " " + v.t + ")"
	}
	bs := sanitize(s)
	vc.boxUsed[s] = true
	vc.global("(= (unbox!" + bs + " (box!" + bs + " " + v.t + ")) " + v.t + ")")
	return "(mkIface " + tag + " (box!" + bs + " " + v.t + "))"
}

func (fr *frame) unboxIface(t types.Type, iface string) string {
	vc := fr.vc
	reg := vc.eng.types
	s := reg.sortOf(t)
	if s == sortInt {
		return "(iref " + iface + ")"
	}
	bs := sanitize(s)
	vc.boxUsed[s] = true
	return "(unbox!" + bs + " (iref " + iface + "))"
}

func (fr *frame) execTypeAssert(x *ssa.TypeAssert, v Val, alive string, safety safetyFn) Val {
	vc := fr.vc
	reg := vc.eng.types
	at := types.Unalias(x.AssertedType)
	var ok, res string
	if _, isIface := at.Underlying().(*types.Interface); isIface {
		ok = vc.implementsTerm(v.t, at)
		res = v.t
	} else {
		ok = "(= (itag " + v.t + ") " + reg.tagOf(at) + ")"
		res = fr.unboxIface(at, v.t)
	}
	if x.CommaOk {
		okc := vc.define("taok", sortBool, ok)
		zero := reg.zero(at)
		r := "(ite " + okc + " " + res + " " + zero + ")"
		rv := vc.define("ta", reg.sortOf(at), r)
		vc.assumeType(alive, rv, at, "")
		return Val{tup: []Val{{t: rv}, {t: okc}}}
	}
	safety("type-assert", x.X.Name(), x.Pos(), ok)
	return Val{t: res}
}

// implementsTerm: does the dynamic type of iface value implement interface it?
func (vc *VC) implementsTerm(iface string, it types.Type) string {
	in, _ := it.(*types.Named)
	name := "impl!" + sanitize(types.TypeString(it, func(p *types.Package) string { return p.Name() }))
	if in != nil {
		name = "impl!" + shortTypeName(in)[2:]
	}
	if !vc.declared[name] {
		vc.declared[name] = true
		vc.decls = append(vc.decls, "(declare-fun "+name+" (Int) Bool)")
		vc.global("(not (" + name + " 0))")
	}
	// facts for all known tags
	iu := it.Underlying().(*types.Interface)
	reg := vc.eng.types
	var keys []string
	for k := range reg.tags {
		keys = append(keys, k)
	}
	sort.Strings(keys)
	for _, k := range keys {
		fact := name + "@" + k
		if vc.declared[fact] {
			continue
		}
		vc.declared[fact] = true
		ct := reg.tagTypes[k]
		if types.Implements(ct, iu) {
			vc.global("(" + name + " " + reg.tags[k] + ")")
		} else {
			vc.global("(not (" + name + " " + reg.tags[k] + "))")
		}
	}
	return "(" + name + " (itag " + iface + "))"
}

func subTerm(a, b string) string {
	if b == "0" {
		return a
	}
	return "(- " + a + " " + b + ")"
}

func addTerm(a, b string) string {
	if b == "0" {
		return a
	}
	if a == "0" {
		return b
	}
	return "(+ " + a + " " + b + ")"
}

// zeroArray returns a constant array of zero values of elemType (declared once, with its axiom).
func (vc *VC) zeroArray(elemSort, zero string) string {
	name := "zeroarr!" + sanitize(elemSort)
	if !vc.declared[name] {
		vc.declare(name, "(Array Int "+elemSort+")")
		vc.global("(forall ((i!z Int)) (! (= (select " + name + " i!z) " + zero + ") :pattern ((select " + name + " i!z))))")
	}
	return name
}

func (fr *frame) mapHeaps(mt *types.Map) (pk, ps, vk, vs string) {
	reg := fr.vc.eng.types
	ks, es := reg.sortOf(mt.Key()), reg.sortOf(mt.Elem())
	id := sanitize(ks) + "!" + sanitize(es)
	return "MP!" + id, "(Array Int (Array " + ks + " Bool))", "MV!" + id, "(Array Int (Array " + ks + " " + es + "))"
}

func (fr *frame) execLookup(x *ssa.Lookup, m, k Val, st *State, alive string, safety safetyFn) Val {
	vc := fr.vc
	reg := vc.eng.types
	mt, isMap := types.Unalias(x.X.Type()).Underlying().(*types.Map)
	if !isMap {
		// string index
		safety("index", x.X.Name(), x.Pos(), "(and (<= 0 "+k.t+") (< "+k.t+" (str.len "+m.t+")))")
		return Val{t: "(str.to_code (str.at " + m.t + " " + k.t + "))"}
	}
	var present, value string
	// lookups in generated enum maps (package-level map literals with constant entries)
	if un, ok := x.X.(*ssa.UnOp); ok {
		if g, ok2 := un.X.(*ssa.Global); ok2 {
			if lit := vc.eng.mapLiteral(g); lit != nil {
				var ps []string
				value = reg.zero(mt.Elem())
				for i := len(lit) - 1; i >= 0; i-- {
					ps = append(ps, "(= "+k.t+" "+lit[i].key+")")
					value = "(ite (= " + k.t + " " + lit[i].key + ") " + lit[i].val + " " + value + ")"
				}
				present = or(ps...)
				vc.usedSpecs["map literal "+g.String()+" (read from the generated source each run; assumed never written after init)"] = true
			}
		}
	}
	if present == "" {
		pk, ps, vk, vs := fr.mapHeaps(mt)
		hp := vc.heapGet(st, pk, ps)
		hv := vc.heapGet(st, vk, vs)
		present = "(select (select " + hp + " " + m.t + ") " + k.t + ")"
		value = "(ite " + present + " (select (select " + hv + " " + m.t + ") " + k.t + ") " + reg.zero(mt.Elem()) + ")"
	}
	pc := vc.define("found", sortBool, present)
	vv := vc.define("lookup", reg.sortOf(mt.Elem()), value)
	vc.assumeType(alive, vv, mt.Elem(), st.alloc)
	if x.CommaOk {
		return Val{tup: []Val{{t: vv}, {t: pc}}}
	}
	return Val{t: vv}
}

func (fr *frame) execSlice(x *ssa.Slice, st *State, env map[ssa.Value]Val, alive string, safety safetyFn) Val {
	vc := fr.vc
	base := fr.operand(x.X, env)
	lo := "0"
	if x.Low != nil {
		lo = fr.operand(x.Low, env).t
	}
	switch bt := types.Unalias(x.X.Type()).Underlying().(type) {
	case *types.Basic: // string
		hi := "(str.len " + base.t + ")"
		if x.High != nil {
			hi = fr.operand(x.High, env).t
		}
		safety("slice-bounds", x.X.Name(), x.Pos(), "(and (<= 0 "+lo+") (<= "+lo+" "+hi+") (<= "+hi+" (str.len "+base.t+")))")
		return Val{t: "(str.substr " + base.t + " " + lo + " " + subTerm(hi, lo) + ")"}
	case *types.Slice:
		hi := "(slen " + base.t + ")"
		if x.High != nil {
			hi = fr.operand(x.High, env).t
		}
		// capacity is not modelled: bounds are checked against the length
		safety("slice-bounds", x.X.Name(), x.Pos(), "(and (<= 0 "+lo+") (<= "+lo+" "+hi+") (<= "+hi+" (slen "+base.t+")))")
		return Val{t: "(mkSlice (sref " + base.t + ") " + addTerm("(soff "+base.t+")", lo) + " " + subTerm(hi, lo) + ")"}
	case *types.Pointer:
		at := types.Unalias(bt.Elem()).Underlying().(*types.Array)
		hi := fmt.Sprint(at.Len())
		if x.High != nil {
			hi = fr.operand(x.High, env).t
		}
		safety("slice-bounds", x.X.Name(), x.Pos(), fmt.Sprintf("(and (<= 0 %s) (<= %s %s) (<= %s %d))", lo, lo, hi, hi, at.Len()))
		return Val{t: "(mkSlice " + base.t + " " + lo + " " + subTerm(hi, lo) + ")"}
	}
	return vc.havocVal(x.Type(), x.Name(), st.alloc)
}
