package main

// Object invariants of the module's long-lived components (`typeinv T macro Ctor...`).
//
// They carry the facts panic freedom needs about injected dependencies (logger, keepers, routers are not
// nil). Unlike the [inv] preconditions of single functions they are not trusted: the constructors'
// contracts ensure them and are verified in the same run, and an SSA scan shows that values of the type are
// allocated in the constructors only and that no other function stores to their fields.

import (
	"go/token"
	"fmt"
	"go/types"
	"os"
	"sort"
	"strings"

	"golang.org/x/tools/go/ssa"
)

func (e *Engine) typeInvOf(t types.Type) *TypeInv {
	p, ok := unaliasNil(t).(*types.Pointer)
	if !ok {
		return nil
	}
	n, ok := unaliasNil(p.Elem()).(*types.Named)
	if !ok || n.Obj().Pkg() == nil {
		return nil
	}
	return e.specs.typeinvs[n.Obj().Pkg().Path()+"."+n.Obj().Name()]
}

// assumeTypeInvs: at the entry of a function (verified or inlined) every parameter that points to a type
// with an object invariant satisfies it unless nil. Only panic freedom needs these facts, so they are used
// in the runs that generate safety obligations (which are the runs that verify the constructors).
func (vc *VC) assumeTypeInvs(fn *ssa.Function, args []Val, st *State, reach string) {
	if !vc.eng.useTypeInv || len(vc.eng.specs.typeinvs) == 0 || os.Getenv("VERIF_NOTYPEINV") != "" {
		return
	}
	for i, p := range fn.Params {
		if i >= len(args) {
			break
		}
		ti := vc.eng.typeInvOf(p.Type())
		if ti == nil {
			continue
		}
		ex, err := parseExpr(ti.Macro + "(tiSelf)")
		if err != nil {
			continue
		}
		var pkg *ssa.Package
		for _, sp := range vc.eng.ssaPkgs {
			if sp != nil && sp.Pkg.Path() == ti.Pkg {
				pkg = sp
			}
		}
		te := vc.newTEnv(st, st, pkg)
		te.bind("tiSelf", args[i], p.Type())
		vc.assume(and(reach, "(not (= "+args[i].t+" 0))"), te.formula(ex))
		vc.usedSpecs["object invariant "+ti.Macro+" of "+ti.Type+" (proved on "+strings.Join(ti.Ctors, ", ")+"; scan typeinv#immutable) ["+ti.Src+"]"] = true
	}
}

// isTypeInvWriter: constructors and listed mutators run while the application is wired, not on a packet;
// they are verified for what they ensure, not for panic freedom on a nil receiver or argument.
func (e *Engine) isTypeInvWriter(fn *ssa.Function) bool {
	for _, ti := range e.specs.typeinvs {
		if isCtorOf(fn, ti) {
			return true
		}
	}
	return false
}

func isCtorOf(fn *ssa.Function, ti *TypeInv) bool {
	if fn.Pkg == nil || fn.Pkg.Pkg.Path() != ti.Pkg {
		return false
	}
	for _, c := range ti.Ctors {
		if fn.Name() == c {
			return true
		}
	}
	return false
}

// typeInvScan: values of a type with an object invariant are allocated in its constructors only, and no
// other function stores to one of its fields; every constructor has a contract that ensures the invariant.
func (e *Engine) typeInvScan() (bad []string, n int) {
	var keys []string
	for k := range e.specs.typeinvs {
		keys = append(keys, k)
	}
	sort.Strings(keys)
	for _, k := range keys {
		ti := e.specs.typeinvs[k]
		n++
		if e.specs.macros[ti.Macro] == nil {
			bad = append(bad, fmt.Sprintf("typeinv %s: no macro %s", ti.Type, ti.Macro))
		}
		for _, c := range ti.Ctors {
			ct := e.specs.contracts[ti.Pkg+"."+c]
			if ct == nil {
				ct = e.specs.contracts["(*"+ti.Pkg+"."+ti.Type+")."+c]
			}
			ok := false
			if ct != nil {
				for _, cl := range ct.Ensures {
					if strings.Contains(cl.Text, ti.Macro+"(") {
						ok = true
					}
				}
			}
			if !ok {
				bad = append(bad, fmt.Sprintf("typeinv %s: constructor %s has no contract ensuring %s", ti.Type, c, ti.Macro))
			}
		}
		isT := func(t types.Type) bool {
			if p, ok := unaliasNil(t).(*types.Pointer); ok {
				t = p.Elem()
			}
			nm, ok := unaliasNil(t).(*types.Named)
			return ok && nm.Obj().Pkg() != nil && nm.Obj().Pkg().Path() == ti.Pkg && nm.Obj().Name() == ti.Type
		}
		for _, fn := range e.allFns {
			if fn.Pkg == nil || !inRepo(fn.Pkg.Pkg) || fn.Name() == "init" || strings.HasPrefix(fn.Name(), "init#") || isCtorOf(fn, ti) {
				continue
			}
			for _, b := range fn.Blocks {
				for _, ins := range b.Instrs {
					switch x := ins.(type) {
					case *ssa.Alloc:
						if isT(x.Type()) {
							bad = append(bad, fmt.Sprintf("%s allocated outside its constructors in %s", ti.Type, fn.String()))
						}
					case *ssa.MapUpdate:
						// a map held in a field of a long-lived component (a memo, a cache) updated outside the constructors
						if u, ok := x.Map.(*ssa.UnOp); ok && u.Op == token.MUL {
							if fa, ok := u.X.(*ssa.FieldAddr); ok && isT(fa.X.Type()) {
								bad = append(bad, fmt.Sprintf("map held in a field of %s updated in %s", ti.Type, fn.String()))
							}
						}
					case *ssa.Store:
						if fa, ok := x.Addr.(*ssa.FieldAddr); ok && isT(fa.X.Type()) {
							bad = append(bad, fmt.Sprintf("field of %s stored in %s", ti.Type, fn.String()))
						}
						if isT(x.Val.Type()) {
							if _, ok := unaliasNil(x.Val.Type()).(*types.Pointer); !ok {
								bad = append(bad, fmt.Sprintf("%s overwritten as a whole in %s", ti.Type, fn.String()))
							}
						}
					}
				}
			}
		}
	}
	return bad, n
}
