package main

// Solver portfolio: one SMT-LIB query per obligation, z3-new -> cvc5 -> z3.

import (
	"bytes"
	"context"
	"fmt"
	"os"
	"os/exec"
	"path/filepath"
	"strings"
	"sync"
	"time"
)

type solverSpec struct {
	name string
	argv func(file string, timeoutS int) []string
}

var solvers = []solverSpec{
	{"z3-new", func(f string, t int) []string { return []string{"z3-new", fmt.Sprintf("-T:%d", t), "-smt2", f} }},
	{"cvc5", func(f string, t int) []string {
		return []string{"cvc5", "--strings-exp", fmt.Sprintf("--tlimit=%d", t*1000), "--lang=smt2", f}
	}},
	{"z3", func(f string, t int) []string { return []string{"z3", fmt.Sprintf("-T:%d", t), "-smt2", f} }},
}

type SolveOpts struct {
	Dir       string // scratch directory for queries
	Timeouts  []int  // per solver seconds
	Parallel  int
	Second    bool // thorough: require agreement of a second solver
	Seed      int
	KeepAll   bool
}

func runSolver(s solverSpec, file string, timeoutS int) (answer string, out string, secs float64) {
	argv := s.argv(file, timeoutS)
	ctx, cancel := context.WithTimeout(context.Background(), time.Duration(timeoutS+5)*time.Second)
	defer cancel()
	cmd := exec.CommandContext(ctx, argv[0], argv[1:]...)
	var buf bytes.Buffer
	cmd.Stdout = &buf
	cmd.Stderr = &buf
	t0 := time.Now()
	_ = cmd.Run()
	secs = time.Since(t0).Seconds()
	out = buf.String()
	first := strings.TrimSpace(strings.SplitN(out, "\n", 2)[0])
	switch first {
	case "sat", "unsat", "unknown":
		answer = first
	default:
		if strings.Contains(out, "timeout") || ctx.Err() != nil {
			answer = "timeout"
		} else {
			answer = "error"
		}
	}
	return
}

func (vc *VC) discharge(opts SolveOpts, tally *Tally) {
	var wg sync.WaitGroup
	sem := make(chan struct{}, opts.Parallel)
	for i, o := range vc.obls {
		wg.Add(1)
		sem <- struct{}{}
		go func(i int, o *Obligation) {
			defer wg.Done()
			defer func() { <-sem }()
			vc.solveOne(o, opts, tally)
		}(i, o)
	}
	wg.Wait()
}

type Tally struct {
	mu        sync.Mutex
	BySolver  map[string]int
	SolverSec float64
	Queries   int
}

func (vc *VC) solveOne(o *Obligation, opts SolveOpts, tally *Tally) {
	q := vc.queryFor(o)
	fname := filepath.Join(opts.Dir, sanitize(o.Name)+".smt2")
	if len(fname) > 200 {
		fname = fname[:180] + fmt.Sprintf("_%d.smt2", len(o.Name))
	}
	withModel := q + "(get-model)\n"
	if err := os.WriteFile(fname, []byte(withModel), 0o644); err != nil {
		o.Status = "error"
		return
	}
	o.Query = fname
	want := "unsat"
	if o.Cover {
		want = "sat"
	}
	var lastOut string
	var log []string
	for si, s := range solvers {
		to := opts.Timeouts[si%len(opts.Timeouts)]
		ans, out, secs := runSolver(s, fname, to)
		tally.mu.Lock()
		tally.SolverSec += secs
		tally.Queries++
		tally.mu.Unlock()
		log = append(log, fmt.Sprintf("%s:%s(%.2fs)", s.name, ans, secs))
		o.Seconds += secs
		if ans == want {
			o.Status = "discharged"
			o.Solver = s.name
			tally.mu.Lock()
			tally.BySolver[s.name]++
			tally.mu.Unlock()
			if !opts.KeepAll {
				os.Remove(fname)
				o.Query = ""
			}
			o.Model = strings.Join(log, " ")
			return
		}
		if ans == "sat" || ans == "unsat" {
			// definite opposite answer
			o.Status = "failed"
			o.Solver = s.name
			o.Model = out
			return
		}
		if ans == "error" {
			lastOut = out
		}
	}
	o.Status = "unknown"
	o.Model = strings.Join(log, " ") + "\n" + lastOut
}
