package main

// Solver portfolio: one SMT-LIB query per obligation, z3-new -> cvc5 -> z3.

import (
	"bytes"
	"context"
	"fmt"
	"os"
	"os/exec"
	"path/filepath"
	"strings"
	"sync"
	"time"
)

type solverSpec struct {
	name string
	argv func(file string, timeoutS int) []string
}

var solvers = []solverSpec{
	{"z3-new", func(f string, t int) []string { return []string{"z3-new", fmt.Sprintf("-T:%d", t), "-smt2", f} }},
	{"cvc5", func(f string, t int) []string {
		return []string{"cvc5", "--strings-exp", fmt.Sprintf("--tlimit=%d", t*1000), "--lang=smt2", f}
	}},
	{"z3", func(f string, t int) []string { return []string{"z3", fmt.Sprintf("-T:%d", t), "-smt2", f} }},
}

type SolveOpts struct {
	Dir      string // scratch directory for queries
	Timeouts []int  // per solver seconds
	Parallel int
	Second   bool // thorough: require agreement of a second solver
	Seed     int
	KeepAll  bool
	noCases  bool // internal: do not try the case split (already tried / being tried)
}

func runSolver(s solverSpec, file string, timeoutS int) (answer string, out string, secs float64) {
	argv := s.argv(file, timeoutS)
	ctx, cancel := context.WithTimeout(context.Background(), time.Duration(timeoutS+5)*time.Second)
	defer cancel()
	cmd := exec.CommandContext(ctx, argv[0], argv[1:]...)
	var buf bytes.Buffer
	cmd.Stdout = &buf
	cmd.Stderr = &buf
	t0 := time.Now()
	_ = cmd.Run()
	secs = time.Since(t0).Seconds()
	out = buf.String()
	first := strings.TrimSpace(strings.SplitN(out, "\n", 2)[0])
	switch first {
	case "sat", "unsat", "unknown":
		answer = first
	default:
		if strings.Contains(out, "timeout") || ctx.Err() != nil {
			answer = "timeout"
		} else {
			answer = "error"
		}
	}
	return
}

func (vc *VC) discharge(opts SolveOpts, tally *Tally) {
	var wg sync.WaitGroup
	sem := make(chan struct{}, (opts.Parallel+2)/3)
	for i, o := range vc.obls {
		wg.Add(1)
		sem <- struct{}{}
		go func(i int, o *Obligation) {
			defer wg.Done()
			defer func() { <-sem }()
			vc.solveOne(o, opts, tally)
		}(i, o)
	}
	wg.Wait()
}

type Tally struct {
	mu        sync.Mutex
	BySolver  map[string]int
	SolverSec float64
	Queries   int
	Agreed    int // thorough: obligations on which a second solver gave the same definite answer
}

func (vc *VC) solveOne(o *Obligation, opts SolveOpts, tally *Tally) {
	if len(o.Cases) > 1 && !o.Cover && !opts.noCases {
		// 1. the whole obligation with a short timeout, 2. once per return site, 3. the whole obligation again
		quick := opts
		quick.noCases = true
		quick.Timeouts = nil
		for _, t := range opts.Timeouts {
			if t > 4 {
				t = 4
			}
			quick.Timeouts = append(quick.Timeouts, t)
		}
		vc.solveOne(o, quick, tally)
		if o.Status == "discharged" || o.Status == "failed" {
			return
		}
		if vc.solveByCases(o, opts, tally) {
			return
		}
		full := opts
		full.noCases = true
		vc.solveOne(o, full, tally)
		return
	}
	q := vc.queryFor(o)
	fname := filepath.Join(opts.Dir, sanitize(o.Name)+".smt2")
	if len(fname) > 200 {
		fname = fname[:180] + fmt.Sprintf("_%d.smt2", len(o.Name))
	}
	if err := os.WriteFile(fname, []byte(q), 0o644); err != nil {
		o.Status = "error"
		return
	}
	o.Query = fname
	want := "unsat"
	if o.Cover {
		want = "sat"
	}
	// race the solvers: the first definite answer wins
	type res struct {
		solver string
		ans    string
		out    string
		secs   float64
	}
	ctx, cancel := context.WithCancel(context.Background())
	defer cancel()
	ch := make(chan res, len(solvers))
	for si, s := range solvers {
		to := opts.Timeouts[si%len(opts.Timeouts)]
		go func(s solverSpec, to int) {
			ans, out, secs := runSolverCtx(ctx, s, fname, to)
			ch <- res{s.name, ans, out, secs}
		}(s, to)
	}
	var log []string
	var lastOut string
	for range solvers {
		r := <-ch
		tally.mu.Lock()
		tally.SolverSec += r.secs
		tally.Queries++
		tally.mu.Unlock()
		log = append(log, fmt.Sprintf("%s:%s(%.2fs)", r.solver, r.ans, r.secs))
		if r.secs > o.Seconds {
			o.Seconds = r.secs
		}
		if r.ans == want {
			o.Status = "discharged"
			o.Solver = r.solver
			o.Seconds = r.secs
			tally.mu.Lock()
			tally.BySolver[r.solver]++
			tally.mu.Unlock()
			if opts.Second && !o.Cover {
				// thorough: give the other solvers a few more seconds; a second identical answer is counted,
				// a contradicting definite answer turns the obligation into a failure (solver disagreement)
				deadline := time.After(6 * time.Second)
				pending := len(solvers) - len(log)
			wait:
				for pending > 0 {
					select {
					case r2 := <-ch:
						pending--
						tally.mu.Lock()
						tally.SolverSec += r2.secs
						tally.Queries++
						tally.mu.Unlock()
						if r2.ans == want {
							tally.mu.Lock()
							tally.Agreed++
							tally.mu.Unlock()
							o.Solver += "+" + r2.solver
							break wait
						}
						if r2.ans == "sat" || r2.ans == "unsat" {
							o.Status = "failed"
							o.Model = "SOLVER DISAGREEMENT: " + r.solver + " answered " + r.ans + ", " + r2.solver + " answered " + r2.ans + "\n" + r2.out
							cancel()
							return
						}
					case <-deadline:
						break wait
					}
				}
			}
			cancel()
			if !opts.KeepAll {
				os.Remove(fname)
				o.Query = ""
			}
			o.Model = strings.Join(log, " ")
			return
		}
		if r.ans == "sat" || r.ans == "unsat" {
			o.Status = "failed"
			o.Solver = r.solver
			o.Model = r.out
			cancel()
			return
		}
		if r.ans == "error" {
			lastOut = r.out
		}
	}
	o.Status = "unknown"
	if lastOut != "" {
		o.Status = "solver-error"
	}
	o.Model = strings.Join(log, " ") + "\n" + lastOut
	if !o.Cover {
		vc.searchModel(o, q, opts)
	}
}

// solveByCases proves an undecided obligation once per case (return site): the case condition is added
// as a hypothesis, which lets the solver collapse the merged results and final state to that site's.
// The disjunction of the cases is the obligation's guard, so all cases unsat means the obligation holds.
func (vc *VC) solveByCases(o *Obligation, opts SolveOpts, tally *Tally) bool {
	base := vc.queryFor(o)
	i := strings.LastIndex(base, "(check-sat)")
	if i < 0 {
		return false
	}
	var secs float64
	used := map[string]bool{}
	for ci, c := range o.Cases {
		q := base[:i] + "(assert " + c + ")\n" + base[i:]
		fname := filepath.Join(opts.Dir, sanitize(o.Name)+fmt.Sprintf(".case%d.smt2", ci))
		if len(fname) > 200 {
			fname = fname[:170] + fmt.Sprintf("_%d.case%d.smt2", len(o.Name), ci)
		}
		if os.WriteFile(fname, []byte(q), 0o644) != nil {
			return false
		}
		type res struct {
			solver, ans string
			secs        float64
		}
		ctx, cancel := context.WithCancel(context.Background())
		ch := make(chan res, len(solvers))
		for si, s := range solvers {
			to := opts.Timeouts[si%len(opts.Timeouts)]
			go func(s solverSpec, to int) {
				ans, _, sec := runSolverCtx(ctx, s, fname, to)
				ch <- res{s.name, ans, sec}
			}(s, to)
		}
		ok := false
		for range solvers {
			r := <-ch
			tally.mu.Lock()
			tally.SolverSec += r.secs
			tally.Queries++
			tally.mu.Unlock()
			if r.ans == "unsat" && !ok {
				ok = true
				secs += r.secs
				used[r.solver] = true
				cancel()
			}
		}
		cancel()
		if !opts.KeepAll {
			os.Remove(fname)
		}
		if !ok {
			return false
		}
	}
	var us []string
	for s := range used {
		us = append(us, s)
	}
	o.Status = "discharged"
	o.Solver = strings.Join(us, "+")
	o.Seconds = secs
	o.Model = fmt.Sprintf("proved by case split over %d return sites", len(o.Cases))
	tally.mu.Lock()
	tally.BySolver["case-split"]++
	tally.mu.Unlock()
	if !opts.KeepAll && o.Query != "" {
		os.Remove(o.Query)
		o.Query = ""
	}
	return true
}

// searchModel looks for a candidate counterexample of an undischarged obligation: quantified
// assumptions are dropped (solvers answer "unknown" in their presence), so the model is only a
// candidate that must be confirmed by replay against the real code.
func (vc *VC) searchModel(o *Obligation, q string, opts SolveOpts) {
	var b strings.Builder
	for _, l := range strings.Split(q, "\n") {
		if strings.HasPrefix(l, "(assert ") && (strings.Contains(l, "(forall ") || strings.Contains(l, "(exists ")) && !strings.HasPrefix(l, "(assert (not ") {
			continue
		}
		b.WriteString(l)
		b.WriteByte('\n')
	}
	b.WriteString("(get-model)\n")
	fname := strings.TrimSuffix(o.Query, ".smt2") + ".model.smt2"
	if os.WriteFile(fname, []byte(b.String()), 0o644) != nil {
		return
	}
	defer os.Remove(fname)
	ans, out, _ := runSolver(solvers[0], fname, 8)
	if ans == "sat" {
		o.Model += "\ncandidate model (quantified assumptions dropped):\n" + out
		o.candidate = out
	}
}

func runSolverCtx(ctx context.Context, s solverSpec, file string, timeoutS int) (answer string, out string, secs float64) {
	argv := s.argv(file, timeoutS)
	c2, cancel := context.WithTimeout(ctx, time.Duration(timeoutS+5)*time.Second)
	defer cancel()
	cmd := exec.CommandContext(c2, argv[0], argv[1:]...)
	var buf bytes.Buffer
	cmd.Stdout = &buf
	cmd.Stderr = &buf
	t0 := time.Now()
	_ = cmd.Run()
	secs = time.Since(t0).Seconds()
	out = buf.String()
	first := strings.TrimSpace(strings.SplitN(out, "\n", 2)[0])
	switch first {
	case "sat", "unsat", "unknown":
		answer = first
	default:
		if strings.Contains(out, "timeout") || c2.Err() != nil {
			answer = "timeout"
		} else {
			answer = "error"
		}
	}
	return
}
