package main

// Goal skolemisation and hypothesis instantiation at query assembly.
//
// A goal  G = ... ==> (forall j :: B(j))  is proved by refuting  not G, where the solver has to find, for the
// existential witness of "not forall j", the instances of the quantified hypotheses at that witness. With
// nested or two-variable hypotheses (pairwise distinctness) e-matching does that unreliably: the same query
// flips between 0.5 s and a timeout with irrelevant changes. Here the witness is made explicit:
//   1. every forall over Int variables in a strictly positive position of the goal is replaced by its body
//      at fresh constants (sk!...): equisatisfiable for the refutation query, the classical skolemisation;
//   2. every forall hypothesis over one or two Int variables of the contract language (names ending in !q),
//      in the assumptions and inside the goal, is conjoined with its instances at those constants (and, for
//      two variables, at pairs of a constant and a program index term). F is replaced by (and F inst...),
//      which is equivalent to F, so this step is sound in any position.
// Queries whose goal has no such forall are left exactly as they were.

import (
	"fmt"
	"strings"
)

type qinst struct {
	n     int
	sks   []string
	decls []string
}

func isIntBinders(b *sexpr, suffix string) ([]string, bool) {
	if b == nil || !b.isList || len(b.list) == 0 {
		return nil, false
	}
	var names []string
	for _, v := range b.list {
		if !v.isList || len(v.list) != 2 || v.list[1].isList || v.list[1].atom != "Int" {
			return nil, false
		}
		if suffix != "" && !strings.HasSuffix(v.list[0].atom, suffix) {
			return nil, false
		}
		names = append(names, v.list[0].atom)
	}
	return names, true
}

func stripPattern(n *sexpr) *sexpr {
	if n.isList && len(n.list) >= 2 && !n.list[0].isList && n.list[0].atom == "!" {
		return n.list[1]
	}
	return n
}

func substAtoms(n *sexpr, m map[string]string) *sexpr {
	if !n.isList {
		if t, ok := m[n.atom]; ok {
			return &sexpr{atom: t}
		}
		return n
	}
	// a nested binder of the same name shadows: stop there
	if len(n.list) == 3 && !n.list[0].isList && (n.list[0].atom == "forall" || n.list[0].atom == "exists") && n.list[1].isList {
		for _, v := range n.list[1].list {
			if v.isList && len(v.list) == 2 {
				if _, ok := m[v.list[0].atom]; ok {
					return n
				}
			}
		}
	}
	out := &sexpr{isList: true}
	for _, c := range n.list {
		out.list = append(out.list, substAtoms(c, m))
	}
	return out
}

// skolemise walks a formula that is asserted with polarity pol (+1: asserted true, -1: asserted false,
// 0: mixed) and replaces foralls at -1 (existentials at the top of the refutation) by their bodies at
// fresh constants.
func (q *qinst) skolemise(n *sexpr, pol int) *sexpr {
	if !n.isList || len(n.list) == 0 || n.list[0].isList {
		return n
	}
	head := n.list[0].atom
	rec := func(c *sexpr, p int) *sexpr { return q.skolemise(c, p) }
	switch head {
	case "and", "or":
		out := &sexpr{isList: true, list: []*sexpr{n.list[0]}}
		for _, c := range n.list[1:] {
			out.list = append(out.list, rec(c, pol))
		}
		return out
	case "not":
		if len(n.list) == 2 {
			return &sexpr{isList: true, list: []*sexpr{n.list[0], rec(n.list[1], -pol)}}
		}
	case "=>":
		out := &sexpr{isList: true, list: []*sexpr{n.list[0]}}
		for i, c := range n.list[1:] {
			if i == len(n.list)-2 {
				out.list = append(out.list, rec(c, pol))
			} else {
				out.list = append(out.list, rec(c, -pol))
			}
		}
		return out
	case "!":
		if len(n.list) >= 2 {
			out := &sexpr{isList: true, list: append([]*sexpr{n.list[0], rec(n.list[1], pol)}, n.list[2:]...)}
			return out
		}
	case "forall":
		if pol == -1 && len(n.list) == 3 {
			if names, ok := isIntBinders(n.list[1], "!q"); ok {
				m := map[string]string{}
				for _, nm := range names {
					q.n++
					sk := fmt.Sprintf("sk!%s!%d", strings.TrimSuffix(nm, "!q"), q.n)
					m[nm] = sk
					q.sks = append(q.sks, sk)
					q.decls = append(q.decls, "(declare-const "+sk+" Int)")
				}
				return rec(substAtoms(stripPattern(n.list[2]), m), pol)
			}
		}
	}
	return n
}

// instantiate conjoins every contract-language forall over one or two Int variables with its instances.
func (q *qinst) instantiate(n *sexpr, idx []string) *sexpr {
	if !n.isList || len(n.list) == 0 {
		return n
	}
	out := &sexpr{isList: true}
	for _, c := range n.list {
		out.list = append(out.list, q.instantiate(c, idx))
	}
	if n.list[0].isList || n.list[0].atom != "forall" || len(n.list) != 3 {
		return out
	}
	names, ok := isIntBinders(n.list[1], "!q")
	if !ok || len(names) > 2 {
		return out
	}
	body := stripPattern(out.list[2])
	var insts []*sexpr
	if len(names) == 1 {
		for _, sk := range q.sks {
			insts = append(insts, substAtoms(body, map[string]string{names[0]: sk}))
		}
	} else {
		seen := map[string]bool{}
		add := func(a, b string) {
			if a == b || seen[a+"|"+b] {
				return
			}
			seen[a+"|"+b] = true
			insts = append(insts, substAtoms(body, map[string]string{names[0]: a, names[1]: b}))
		}
		for _, sk := range q.sks {
			for _, t := range append(append([]string{}, q.sks...), idx...) {
				add(sk, t)
				add(t, sk)
			}
		}
	}
	if len(insts) == 0 {
		return out
	}
	return &sexpr{isList: true, list: append([]*sexpr{{atom: "and"}, out}, insts...)}
}

// refineForGoal returns the declarations, assumptions and goal of the refutation query with the goal's
// universal witnesses made explicit; ok is false when the goal has none (nothing changes then).
func (vc *VC) refineForGoal(asserts []string, goal string) (decls []string, outAsserts []string, outGoal string, ok bool) {
	if !strings.Contains(goal, "(forall ") {
		return nil, nil, "", false
	}
	g := parseSExpr(goal)
	if g == nil {
		return nil, nil, "", false
	}
	q := &qinst{}
	g2 := q.skolemise(g, -1)
	if len(q.sks) == 0 {
		return nil, nil, "", false
	}
	idx := vc.indexTerms
	if len(idx) > 4 {
		idx = idx[len(idx)-4:]
	}
	outGoal = q.instantiate(g2, idx).String()
	for _, a := range asserts {
		if strings.Contains(a, "!q Int)") && strings.Contains(a, "(forall ") {
			if s := parseSExpr(a); s != nil {
				a = q.instantiate(s, idx).String()
			}
		}
		outAsserts = append(outAsserts, a)
	}
	return q.decls, outAsserts, outGoal, true
}
