package main

// Deferred recover(): a function whose first action is `defer func() { if r := recover(); r != nil { ... } }()`
// catches every panic raised in its dynamic extent. Such a function is executed in catch mode:
//
//   - a potential panic point inside it (nil dereference, index, panics-unless of a trusted spec, explicit
//     panic, ...) is not a safety obligation; its condition is assumed on the normal path only;
//   - besides the normal returns there is a panic path, taken when the fresh boolean `panicked` is true,
//     which requires that some panic point was reached with its condition violated or that an external
//     call the verifier knows nothing about was reached (it may panic). On it the state is the state
//     at that point (for an unknown call: after its havoc, which covers partial effects), the deferred closure runs with a non-nil recover() value, and the
//     function returns through its Recover block (the named results as the closure left them).
//
// The pattern is recognised structurally; anything else involving defer stays unmodelled.

import (
	"go/types"
	"sort"
	"strings"

	"golang.org/x/tools/go/ssa"
)

type catchCtx struct {
	pk       string // the "panicked" boolean
	deferIns *ssa.Defer
	closure  *ssa.Function
	bindings []Val
	env      map[ssa.Value]Val
	heaps    map[string]bool
	ghosts   map[string]bool
	allocs   []string
	panics   []string      // conditions under which some point in the dynamic extent panics
	snaps    []edgePayload // the state at each of those points
	nLog     int
	nDecl    int
}

func (vc *VC) trackAlloc(t string) {
	for _, c := range vc.catchStack {
		c.allocs = append(c.allocs, t)
	}
}

func (c *catchCtx) panicAt(cond string, st *State) {
	c.panics = append(c.panics, cond)
	c.snaps = append(c.snaps, edgePayload{cond: cond, st: st.clone()})
}

func (vc *VC) catching() *catchCtx {
	if n := len(vc.catchStack); n > 0 {
		return vc.catchStack[n-1]
	}
	return nil
}

// safetyCheck is the single place where a potential panic point is recorded.
func (vc *VC) safetyCheck(name, pos, text, alive, cond string, st *State) {
	if c := vc.catching(); c != nil {
		if vc.quiet == 0 {
			c.panicAt(and(alive, "(not "+cond+")"), st)
		}
		vc.assume(and(alive, "(not "+c.pk+")"), cond)
		return
	}
	if vc.safety {
		vc.oblige("safety", name, pos, text, alive, cond, []string{vc.safetyTag()})
	}
	if cond == "false" {
		return // never assume false on the normal path: it would make everything after this point vacuous
	}
	vc.assume(alive, cond)
}

// recoverDefer recognises the pattern: exactly one defer, in the entry block, of a closure that calls
// recover(), with nothing before it that could panic.
func recoverDefer(fn *ssa.Function) (*ssa.Defer, *ssa.Function) {
	if fn.Recover == nil || len(fn.Blocks) == 0 {
		return nil, nil
	}
	var d *ssa.Defer
	for _, b := range fn.Blocks {
		for _, ins := range b.Instrs {
			if x, ok := ins.(*ssa.Defer); ok {
				if d != nil || b.Index != 0 {
					return nil, nil
				}
				d = x
			}
		}
	}
	if d == nil {
		return nil, nil
	}
	for _, ins := range fn.Blocks[0].Instrs {
		if ins == ssa.Instruction(d) {
			break
		}
		switch x := ins.(type) {
		case *ssa.Alloc, *ssa.MakeClosure, *ssa.DebugRef:
		case *ssa.Store:
			if _, ok := x.Addr.(*ssa.Alloc); !ok {
				return nil, nil
			}
		default:
			return nil, nil
		}
	}
	mc, ok := d.Call.Value.(*ssa.MakeClosure)
	if !ok || len(d.Call.Args) != 0 {
		return nil, nil
	}
	clo, ok := mc.Fn.(*ssa.Function)
	if !ok {
		return nil, nil
	}
	calls := false
	for _, b := range clo.Blocks {
		for _, ins := range b.Instrs {
			if c, ok := ins.(*ssa.Call); ok {
				if bi, ok := c.Call.Value.(*ssa.Builtin); ok && bi.Name() == "recover" {
					calls = true
				}
			}
		}
	}
	if !calls {
		return nil, nil
	}
	return d, clo
}

// runClosure executes a closure body with the given bindings of its free variables.
func (vc *VC) runClosure(clo *ssa.Function, bindings []Val, st *State, alive string, depth int) (*State, string) {
	vc.nextFreeVars = bindings
	_, out, ret := vc.execFunc(clo, nil, st, alive, depth, nil)
	return out, ret
}

// panicPath builds the returns of the panic path of a catching function.
func (fr *frame) panicPath(c *catchCtx, entry *State, reach string) []retInfo {
	vc := fr.vc
	fn := fr.fn
	// the state in which the deferred closure runs: the state at the panic point that was hit (the first
	// one in program order whose condition holds)
	if len(c.snaps) == 0 {
		vc.assume("true", "(not "+c.pk+")")
		return nil
	}
	pst, _, _ := vc.mergeIn(c.snaps, fn.Name()+"_panic", nil)
	// the panic path is taken only if some panic point was reached with its condition violated, or a call
	// the verifier knows nothing about was reached (it may panic)
	vc.assume(c.pk, or(c.panics...))
	palive := and(reach, c.pk)
	rv := vc.fresh("recovered", sortIface)
	vc.assume("true", "(not (= (itag "+rv+") 0))")
	vc.recoverVals = append(vc.recoverVals, rv)
	out, ret := vc.runClosure(c.closure, c.bindings, pst, palive, fr.depth+1)
	vc.recoverVals = vc.recoverVals[:len(vc.recoverVals)-1]
	rc := &runCtx{}
	env := make(map[ssa.Value]Val, len(c.env))
	for k, v := range c.env {
		env[k] = v
	}
	n := nkey{fn.Recover.Index, 0}
	fr.run([]nkey{n}, map[nkey][]edgePayload{n: {{cond: ret, st: out, env: env}}}, rc)
	return rc.rets
}

// havocModified havocs the given heaps and ghosts of st; for a heap whose writes are all known (write log),
// pre-existing objects other than the written ones keep their content.
func (vc *VC) havocModified(cur *State, modH, modG map[string]bool, log []writeRec, nDecl int) {
	var hk []string
	for k := range modH {
		hk = append(hk, k)
	}
	sort.Strings(hk)
	for _, k := range hk {
		if vc.heapSorts[k] == "" {
			continue
		}
		pre := vc.heapGet(cur, k, vc.heapSorts[k])
		whole := false
		var refs []string
		seen := map[string]bool{}
		for _, w := range log {
			if w.heap != k {
				continue
			}
			if w.ref == "*" {
				whole = true
				break
			}
			if idx, isAlloc := vc.allocNames[w.ref]; isAlloc && idx >= nDecl {
				continue // object allocated after the starting point
			}
			if !vc.preLoopTerm(w.ref, nDecl) {
				whole = true
				break
			}
			if !seen[w.ref] {
				seen[w.ref] = true
				refs = append(refs, w.ref)
			}
		}
		vc.heapHavoc(cur, k)
		if !whole {
			nw := cur.heaps[k]
			conds := []string{"(> r!f 0)", "(<= r!f " + cur.alloc + ")"}
			for _, r := range refs {
				conds = append(conds, "(not (= r!f "+r+"))")
			}
			vc.assume("true", "(forall ((r!f Int)) (! (=> (and "+strings.Join(conds, " ")+") (= (select "+nw+" r!f) (select "+pre+" r!f))) :pattern ((select "+nw+" r!f))))")
		}
	}
	var gk []string
	for k := range modG {
		gk = append(gk, k)
	}
	sort.Strings(gk)
	for _, k := range gk {
		vc.ghostHavoc(cur, k)
	}
}

var _ = types.Typ

// safetyTag is the property a panic-freedom obligation is reported under: the property being checked
// (C14 is the property that states panic freedom as such; C11 and C17 include it for their own functions).
func (vc *VC) safetyTag() string {
	for _, p := range []string{"C14", "C11", "C17"} {
		if vc.slice[p] {
			return p
		}
	}
	return "C14"
}
