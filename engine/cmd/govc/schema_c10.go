package main

// C10: authority schema over every method of every implementation of a generated MsgServer interface.

import (
	"fmt"
	"go/types"
	"sort"
	"strings"

	"golang.org/x/tools/go/ssa"
)

func init() { propertyHooks["C10"] = hookC10 }

func hookC10(cr *checkRun) {
	e := cr.e
	// generated MsgServer interfaces of the module
	var ifaces []*types.Named
	for _, sp := range e.ssaPkgs {
		if sp == nil || !inRepo(sp.Pkg) {
			continue
		}
		if tn, ok := sp.Pkg.Scope().Lookup("MsgServer").(*types.TypeName); ok {
			if n, ok := tn.Type().(*types.Named); ok {
				if _, isIface := n.Underlying().(*types.Interface); isIface {
					ifaces = append(ifaces, n)
				}
			}
		}
	}
	sort.Slice(ifaces, func(i, j int) bool { return qualifiedName(ifaces[i]) < qualifiedName(ifaces[j]) })
	nMethods := 0
	for _, in := range ifaces {
		it := in.Underlying().(*types.Interface)
		for mi := 0; mi < it.NumMethods(); mi++ {
			m := it.Method(mi)
			key := "(" + qualifiedName(in) + ")." + m.Name()
			for _, fn := range e.implementers(key) {
				pos := e.prog.Fset.Position(fn.Pos())
				if strings.HasSuffix(pos.Filename, ".pb.go") {
					continue // generated Unimplemented* stubs
				}
				nMethods++
				recv := fn.Params[0].Name()
				ct := &Contract{Key: fnKey(fn), Loops: map[int]*LoopAnn{}, Src: "schema C10 (generated)", HasModifies: true}
				ct.Params = []string{recv, "ctx", "msg"}
				ct.Results = []string{"resp", "err"}
				mustParse := func(s string) Expr {
					ex, err := parseExpr(s)
					if err != nil {
						panic(err)
					}
					return ex
				}
				ct.Modifies = []ModItem{{Text: "ghosts", E: mustParse("ghosts")}, {Text: "heap", E: mustParse("heap")}}
				req := "msg != nil"
				ct.Requires = append(ct.Requires, &Clause{Kind: "requires", Tags: []string{"base"}, Text: req, E: mustParse(req), Src: ct.Src})
				cond := "msg.Signer != authOfIface(" + recv + ".Authorizer)"
				ens := cond + " ==> err != nil && resp == nil"
				ct.Ensures = append(ct.Ensures, &Clause{Kind: "ensures", Tags: []string{"C10"}, Text: ens, E: mustParse(ens), Src: ct.Src})
				// existing hand-written contract of the handler (loop annotations etc.) is merged in
				if own := e.specs.contracts[fnKey(fn)]; own != nil {
					ct.Loops = own.Loops
					for _, r := range own.Requires {
						if r.inSlice(map[string]bool{}) {
							ct.Requires = append(ct.Requires, r)
						}
					}
				}
				condE := mustParse(cond)
				extra := func(vc *VC, te *TEnv, final *State, results []Val, retReach string) {
					c := te.withState(vc.entry).formula(condE)
					var gs []string
					for g := range final.ghosts {
						gs = append(gs, g)
					}
					sort.Strings(gs)
					for _, g := range gs {
						e0 := vc.ghostGet(vc.entry, g)
						if final.ghosts[g] == e0 {
							continue
						}
						vc.oblige("schema", fmt.Sprintf("%s#schema[C10]:unchanged(%s)", shortFn(fn), g), vc.pos(fn.Pos()),
							"signer is not the authority ==> ghost state "+g+" is unchanged", and(retReach, c), "(= "+final.ghosts[g]+" "+e0+")", []string{"C10"})
					}
				}
				cr.targets = append(cr.targets, target{fn: fn, ct: ct, key: ct.Key, why: "schema C10: implements " + key, extra: extra})
			}
		}
	}
	if nMethods == 0 {
		cr.notes = append(cr.notes, "C10 schema found no MsgServer method implementations")
	}
	cr.notes = append(cr.notes, fmt.Sprintf("C10 schema: %d MsgServer interfaces, %d handler methods enumerated from go/types", len(ifaces), nMethods))
	_ = ssa.Function{}
}
