package main

// Purity: a function whose verdict (is its error result nil?) is a function of its parameters.

import (
	"fmt"
	"go/types"
	"strings"

	"golang.org/x/tools/go/ssa"
)

var pureExternalPrefixes = []string{"fmt.", "errors.", "strconv.", "strings.", "cosmossdk.io/errors.", "(*cosmossdk.io/errors.Error).",
	"cosmossdk.io/math.", "(cosmossdk.io/math.Int).", "github.com/cosmos/ibc-go/v8/modules/core/04-channel/types.IsValidChannelID",
	"(github.com/noble-assets/orbiter/v2/types/core.ProtocolID).String", "(github.com/noble-assets/orbiter/v2/types/core.ActionID).String",
	"github.com/cosmos/gogoproto/proto.EnumName"}

// impure returns a reason why fn's result may depend on anything but its value parameters, or "".
func (e *Engine) impure(fn *ssa.Function, seen map[*ssa.Function]bool) string {
	if seen[fn] {
		return ""
	}
	seen[fn] = true
	if len(fn.Blocks) == 0 {
		name := fn.String()
		for _, p := range pureExternalPrefixes {
			if strings.HasPrefix(name, p) {
				return ""
			}
		}
		return "calls " + name + " (not known to be a pure function)"
	}
	for _, p := range fn.Params {
		switch types.Unalias(p.Type()).Underlying().(type) {
		case *types.Pointer, *types.Slice, *types.Map, *types.Interface, *types.Chan, *types.Signature:
			return fmt.Sprintf("parameter %s of %s has reference type %s", p.Name(), fn.Name(), p.Type())
		}
	}
	local := map[ssa.Value]bool{}
	for _, b := range fn.Blocks {
		for _, ins := range b.Instrs {
			switch x := ins.(type) {
			case *ssa.Alloc:
				local[x] = true
			case *ssa.FieldAddr:
				if local[x.X] {
					local[x] = true
				}
			case *ssa.IndexAddr:
				if local[x.X] {
					local[x] = true
				}
			}
		}
	}
	for _, b := range fn.Blocks {
		for _, ins := range b.Instrs {
			switch x := ins.(type) {
			case *ssa.Store:
				if !local[x.Addr] {
					return "stores to non-local memory in " + fn.Name()
				}
			case *ssa.UnOp:
				if x.Op.String() == "*" {
					if _, isGlobal := x.X.(*ssa.Global); !isGlobal && !local[x.X] {
						return "loads from non-local memory in " + fn.Name()
					}
				}
			case *ssa.MapUpdate:
				return "map update in " + fn.Name()
			case *ssa.Go, *ssa.Send, *ssa.Select, *ssa.Defer:
				return "concurrency/defer in " + fn.Name()
			case ssa.CallInstruction:
				c := x.Common()
				if c.IsInvoke() {
					if c.Method.Name() == "Error" || c.Method.Name() == "String" {
						continue
					}
					return "dynamic call to " + c.Method.Name() + " in " + fn.Name()
				}
				if _, isBuiltin := c.Value.(*ssa.Builtin); isBuiltin {
					continue
				}
				callee := c.StaticCallee()
				if callee == nil {
					return "call through function value in " + fn.Name()
				}
				if r := e.impure(callee, seen); r != "" {
					return r
				}
			}
		}
	}
	return ""
}

// verdictTerm builds name(params...) for a pure-verdict contract; declares the function.
func (vc *VC) verdictTerm(ct *Contract, sig *types.Signature, args []Val, recvType types.Type) string {
	var sorts []string
	var ts []string
	reg := vc.eng.types
	i := 0
	if recvType != nil {
		sorts = append(sorts, reg.sortOf(recvType))
		ts = append(ts, args[0].t)
		i = 1
	}
	for k := 0; k < sig.Params().Len(); k++ {
		sorts = append(sorts, reg.sortOf(sig.Params().At(k).Type()))
		ts = append(ts, args[i+k].t)
	}
	name := ct.PureVerdict
	if name == "" {
		name = ct.PureResult
	}
	if len(ts) == 0 {
		return name
	}
	return "(" + name + " " + strings.Join(ts, " ") + ")"
}

// errResultIndex: index of the last result if it is of type error, else -1
func errResultIndex(sig *types.Signature) int {
	n := sig.Results().Len()
	if n == 0 {
		return -1
	}
	if types.Identical(sig.Results().At(n-1).Type(), types.Universe.Lookup("error").Type()) {
		return n - 1
	}
	return -1
}

// namedTerm builds fname(params...) for pure-verdict / pure-result logic functions.
func (vc *VC) namedTerm(fname string, sig *types.Signature, args []Val, hasRecv bool) string {
	var ts []string
	i := 0
	if hasRecv {
		ts = append(ts, args[0].t)
		i = 1
	}
	for k := 0; k < sig.Params().Len(); k++ {
		ts = append(ts, args[i+k].t)
	}
	if len(ts) == 0 {
		return fname
	}
	return "(" + fname + " " + strings.Join(ts, " ") + ")"
}
