package main

// Translation of contract expressions into SMT terms over a symbolic state.

import (
	"fmt"
	"go/constant"
	"go/types"
	"sort"
	"strings"

	"golang.org/x/tools/go/ssa"
)

type TV struct {
	t     string
	sort  string
	gt    types.Type
	ip    *IPtr
	isNil bool
	wf    string // allocated object this value was read from (for heap well-formedness facts)
}

type TEnv struct {
	vc          *VC
	st          *State
	old         *State
	vars        map[string]TV
	pkg         *ssa.Package
	errs        []string
	macroParams map[string]bool // parameters of the macro whose body is being translated
	neg         bool            // the formula being translated occurs in goal polarity (to be proved, not assumed)
}

func (vc *VC) newTEnv(st, old *State, pkg *ssa.Package) *TEnv {
	return &TEnv{vc: vc, st: st, old: old, vars: map[string]TV{}, pkg: pkg}
}

func (te *TEnv) fail(f string, a ...interface{}) TV {
	msg := fmt.Sprintf(f, a...)
	te.errs = append(te.errs, msg)
	te.vc.eng.specErrors[msg] = true
	return TV{t: "false", sort: sortBool}
}

func (te *TEnv) bind(name string, v Val, t types.Type) {
	if name == "_" || name == "" {
		return
	}
	tv := TV{t: v.t, gt: t, ip: v.ip}
	if t != nil {
		tv.sort = te.vc.eng.types.sortOf(t)
	}
	te.vars[name] = tv
}

func (te *TEnv) bindLets(ct *Contract, oldPhase bool) {
	for _, l := range ct.Lets {
		if l.Old != oldPhase {
			continue
		}
		tv := te.term(l.E)
		if !isAtom(tv.t) && tv.sort != "" {
			tv.t = te.vc.define("let_"+l.Name, tv.sort, tv.t)
		}
		te.vars[l.Name] = tv
	}
}

// goalFormula translates a formula that is going to be proved: universal quantifiers in goal polarity
// get no extra instances (they only help where the quantifier is a hypothesis).
func (te *TEnv) goalFormula(e Expr) string {
	old := te.neg
	te.neg = true
	defer func() { te.neg = old }()
	return te.formula(e)
}

func (te *TEnv) formula(e Expr) string {
	tv := te.term(e)
	if tv.sort != sortBool {
		te.fail("expression %s is not boolean (sort %s)", exprString(e), tv.sort)
		return "false"
	}
	return tv.t
}

var smtAliases = map[string]struct {
	name string
	ret  string
}{
	"strlen":   {"str.len", sortInt},
	"concat":   {"str.++", sortString},
	"prefixof": {"str.prefixof", sortBool},
	"suffixof": {"str.suffixof", sortBool},
	"contains": {"str.contains", sortBool},
	"substr":   {"str.substr", sortString},
	"indexof":  {"str.indexof", sortInt},
	"strat":    {"str.at", sortString},
	"replace":  {"str.replace", sortString},
	"isdigit":  {"str.is_digit", sortBool},
	"div":      {"div", sortInt},
	"mod":      {"mod", sortInt},
}

func (te *TEnv) withState(st *State) *TEnv {
	n := *te
	n.st = st
	return &n
}

func quantSort(s string) string {
	switch s {
	case "int", "int32", "int64", "uint32", "uint64":
		return sortInt
	case "string":
		return sortString
	case "bool":
		return sortBool
	}
	return s
}

func (te *TEnv) term(e Expr) TV {
	vc := te.vc
	reg := vc.eng.types
	switch x := e.(type) {
	case *EInt:
		return TV{t: x.V, sort: sortInt}
	case *EStr:
		return TV{t: smtString(x.V), sort: sortString}
	case *EBool:
		if x.V {
			return TV{t: "true", sort: sortBool}
		}
		return TV{t: "false", sort: sortBool}
	case *ENil:
		return TV{isNil: true, t: "0", sort: sortInt}
	case *EOld:
		return te.withState(te.old).term(x.X)
	case *EIdent:
		return te.ident(x.Name)
	case *ESel:
		if id, ok := x.X.(*EIdent); ok {
			if _, isVar := te.vars[id.Name]; !isVar {
				if _, isGhost := vc.eng.specs.ghostSort[id.Name]; !isGhost {
					if tv, ok := te.qualified(id.Name, x.Name); ok {
						return tv
					}
				}
			}
		}
		base := te.term(x.X)
		return te.selectField(base, x.Name, e)
	case *EIndex:
		base := te.term(x.X)
		idx := te.term(x.I)
		if base.sort == sortSlice {
			sl, _ := underNil(base.gt).(*types.Slice)
			if sl == nil {
				return te.fail("index of untyped slice in %s", exprString(e))
			}
			es := reg.sortOf(sl.Elem())
			h := vc.heapGet(te.st, heapKeyElem(es), "(Array Int (Array Int "+es+"))")
			t := "(select (select " + h + " (sref " + base.t + ")) (+ (soff " + base.t + ") " + idx.t + "))"
			te.wellFormed("(sref "+base.t+")", t, sl.Elem())
			return TV{t: t, sort: es, gt: sl.Elem(), wf: "(sref " + base.t + ")"}
		}
		if strings.HasPrefix(base.sort, "(Array ") {
			se := parseSExpr(base.sort)
			if se != nil && len(se.list) == 3 {
				var gt types.Type
				if at, ok := base.gt.(*types.Array); ok {
					gt = at.Elem()
				}
				return TV{t: "(select " + base.t + " " + idx.t + ")", sort: se.list[2].String(), gt: gt}
			}
		}
		return te.fail("cannot index %s (sort %s)", exprString(x.X), base.sort)
	case *EUn:
		if x.Op == "!" {
			te.neg = !te.neg
		}
		v := te.term(x.X)
		if x.Op == "!" {
			te.neg = !te.neg
			return TV{t: "(not " + v.t + ")", sort: sortBool}
		}
		return TV{t: "(- " + v.t + ")", sort: sortInt}
	case *EBin:
		return te.binary(x)
	case *EQuant:
		inner := *te
		inner.vars = map[string]TV{}
		for k, v := range te.vars {
			inner.vars[k] = v
		}
		var decl []string
		for _, v := range x.Vars {
			s := quantSort(v.Sort)
			name := v.Name + "!q"
			inner.vars[v.Name] = TV{t: name, sort: s}
			decl = append(decl, "("+name+" "+s+")")
		}
		body := inner.formula(x.Body)
		if len(x.Triggers) > 0 {
			var ps []string
			for _, t := range x.Triggers {
				ps = append(ps, inner.term(t).t)
			}
			body = "(! " + body + " :pattern (" + strings.Join(ps, " ") + "))"
		}
		te.errs = append(te.errs, inner.errs...)
		q := "exists"
		if x.Forall {
			q = "forall"
		}
		full := "(" + q + " (" + strings.Join(decl, " ") + ") " + body + ")"
		if x.Forall && !te.neg && len(vc.indexTerms) > 0 && len(x.Vars) <= 2 {
			// explicit instances at the program's index terms (see noteIndexTerm)
			plain := inner.formulaNoTrigger(x)
			var insts []string
			terms := vc.indexTerms
			if len(terms) > 4 {
				terms = terms[len(terms)-4:]
			}
			for vi, v := range x.Vars {
				if quantSort(v.Sort) != sortInt {
					continue
				}
				name := v.Name + "!q"
				if strings.Contains(plain, "(("+name+" ") || strings.Contains(plain, " ("+name+" ") {
					continue // a nested binder of the same name
				}
				for _, t := range terms {
					inst := substToken(plain, name, t)
					if len(x.Vars) == 2 {
						other := x.Vars[1-vi]
						inst = "(forall ((" + other.Name + "!q " + quantSort(other.Sort) + ")) " + inst + ")"
					}
					insts = append(insts, inst)
				}
			}
			if len(insts) > 0 {
				full = "(and " + full + " " + strings.Join(insts, " ") + ")"
			}
		}
		return TV{t: full, sort: sortBool}
	case *ECall:
		return te.call(x)
	}
	return te.fail("unsupported expression %s", exprString(e))
}

// formulaNoTrigger: the body of a quantifier as a plain formula (no pattern annotation)
func (te *TEnv) formulaNoTrigger(x *EQuant) string {
	return te.formula(x.Body)
}

// substToken replaces the SMT symbol name (delimited by spaces or parentheses) by term.
func substToken(s, name, term string) string {
	var b strings.Builder
	for i := 0; i < len(s); {
		if strings.HasPrefix(s[i:], name) {
			before := i == 0 || s[i-1] == ' ' || s[i-1] == '('
			j := i + len(name)
			after := j >= len(s) || s[j] == ' ' || s[j] == ')'
			if before && after {
				b.WriteString(term)
				i = j
				continue
			}
		}
		b.WriteByte(s[i])
		i++
	}
	return b.String()
}

func (te *TEnv) ident(name string) TV {
	vc := te.vc
	if tv, ok := te.vars[name]; ok {
		if len(vc.readLogs) > 0 && !te.macroParams[name] {
			if tv.ip != nil || tv.sort == "" {
				vc.logRead("!", "", "")
			} else {
				vc.logRead("V:"+name, tv.t, tv.sort)
			}
		}
		return tv
	}
	if s, ok := vc.eng.specs.ghostSort[name]; ok {
		return TV{t: vc.ghostGet(te.st, name), sort: s}
	}
	if name == "alloc" {
		if len(vc.readLogs) > 0 {
			vc.logRead("A:", te.st.alloc, sortInt)
		}
		return TV{t: te.st.alloc, sort: sortInt}
	}
	if te.pkg != nil {
		if tv, ok := te.pkgMember(te.pkg.Pkg, name); ok {
			return tv
		}
	}
	if sig, ok := vc.eng.specs.funSigs[name]; ok && len(sig.args) == 0 {
		return TV{t: name, sort: sig.ret}
	}
	return te.fail("unknown identifier %s", name)
}

func (te *TEnv) pkgMember(pkg *types.Package, name string) (TV, bool) {
	vc := te.vc
	obj := pkg.Scope().Lookup(name)
	if obj == nil {
		return TV{}, false
	}
	switch o := obj.(type) {
	case *types.Const:
		switch o.Val().Kind() {
		case constant.Int:
			return TV{t: smtInt(o.Val().ExactString()), sort: sortInt, gt: o.Type()}, true
		case constant.String:
			return TV{t: smtString(constant.StringVal(o.Val())), sort: sortString, gt: o.Type()}, true
		case constant.Bool:
			return TV{t: fmt.Sprint(constant.BoolVal(o.Val())), sort: sortBool, gt: o.Type()}, true
		}
	case *types.Var:
		sp := vc.eng.prog.Package(pkg)
		if sp != nil {
			if g, ok := sp.Members[name].(*ssa.Global); ok {
				return TV{t: vc.globalValue(g), sort: vc.eng.types.sortOf(o.Type()), gt: o.Type()}, true
			}
		}
	}
	return TV{}, false
}

func (te *TEnv) findPackage(name string) *types.Package {
	if te.pkg != nil {
		if te.pkg.Pkg.Name() == name {
			return te.pkg.Pkg
		}
		// several imports may share a package name (orbiter's keeper, the bank, CCTP and warp keepers are all
		// "keeper" in depinject.go): an in-repo import wins, a unique match is taken, anything else is decided
		// by the global search below (in-repo packages first)
		var matches []*types.Package
		for _, imp := range te.pkg.Pkg.Imports() {
			if imp.Name() == name {
				matches = append(matches, imp)
			}
		}
		for _, m := range matches {
			if inRepo(m) {
				return m
			}
		}
		if len(matches) == 1 {
			return matches[0]
		}
	}
	var cands []*types.Package
	for _, p := range te.vc.eng.prog.AllPackages() {
		if p.Pkg.Name() == name || p.Pkg.Path() == name || strings.HasSuffix(p.Pkg.Path(), "/"+name) {
			cands = append(cands, p.Pkg)
		}
	}
	sort.Slice(cands, func(i, j int) bool {
		ri, rj := inRepo(cands[i]), inRepo(cands[j])
		if ri != rj {
			return ri
		}
		return cands[i].Path() < cands[j].Path()
	})
	if len(cands) > 0 {
		return cands[0]
	}
	return nil
}

func (te *TEnv) qualified(pkgName, member string) (TV, bool) {
	p := te.findPackage(pkgName)
	if p == nil {
		return TV{}, false
	}
	return te.pkgMember(p, member)
}

// resolveType parses "*pkg.Type" / "Type" strings.
func (te *TEnv) resolveType(s string) types.Type {
	ptrs := 0
	for strings.HasPrefix(s, "*") {
		ptrs++
		s = s[1:]
	}
	var t types.Type
	switch s {
	case "string":
		t = types.Typ[types.String]
	case "int":
		t = types.Typ[types.Int]
	case "int32":
		t = types.Typ[types.Int32]
	case "uint32":
		t = types.Typ[types.Uint32]
	case "uint64":
		t = types.Typ[types.Uint64]
	case "int64":
		t = types.Typ[types.Int64]
	case "bool":
		t = types.Typ[types.Bool]
	}
	if t == nil {
		var pkg *types.Package
		name := s
		if i := strings.LastIndex(s, "."); i >= 0 {
			pkg = te.findPackage(s[:i])
			name = s[i+1:]
		} else if te.pkg != nil {
			pkg = te.pkg.Pkg
		}
		if pkg == nil {
			return nil
		}
		obj := pkg.Scope().Lookup(name)
		tn, ok := obj.(*types.TypeName)
		if !ok {
			return nil
		}
		t = tn.Type()
	}
	for i := 0; i < ptrs; i++ {
		t = types.NewPointer(t)
	}
	return t
}

// findFieldPath finds a (possibly promoted) field by name; returns the index path.
func findFieldPath(t types.Type, name string, depth int) ([]int, bool) {
	t = types.Unalias(t)
	if p, ok := t.Underlying().(*types.Pointer); ok {
		t = p.Elem()
	}
	st, ok := types.Unalias(t).Underlying().(*types.Struct)
	if !ok || depth > 4 {
		return nil, false
	}
	for i := 0; i < st.NumFields(); i++ {
		if st.Field(i).Name() == name {
			return []int{i}, true
		}
	}
	for i := 0; i < st.NumFields(); i++ {
		f := st.Field(i)
		if f.Embedded() {
			if p, ok := findFieldPath(f.Type(), name, depth+1); ok {
				return append([]int{i}, p...), true
			}
		}
	}
	return nil, false
}

func (te *TEnv) selectField(base TV, name string, e Expr) TV {
	vc := te.vc
	reg := vc.eng.types
	if base.gt == nil {
		// struct sort known only by name
		if si, ok := reg.structs[base.sort]; ok {
			for i, f := range si.fields {
				if f.name == name {
					return TV{t: "(" + accessor(si, i) + " " + base.t + ")", sort: f.sort, gt: f.typ}
				}
			}
		}
		return te.fail("cannot select .%s from untyped term in %s", name, exprString(e))
	}
	path, ok := findFieldPath(base.gt, name, 0)
	if !ok {
		return te.fail("no field %s in %s (%s)", name, base.gt, exprString(e))
	}
	cur := base
	for _, fi := range path {
		cur = te.step(cur, fi)
		if cur.sort == "" {
			return te.fail("cannot select .%s in %s", name, exprString(e))
		}
	}
	return cur
}

func (te *TEnv) step(cur TV, fi int) TV {
	vc := te.vc
	reg := vc.eng.types
	gt := unaliasNil(cur.gt)
	if cur.ip != nil {
		// location of a struct value: read it
		cur = TV{t: vc.readLoc(te.st, cur.ip), sort: reg.sortOf(cur.ip.targetType()), gt: cur.ip.targetType()}
		gt = unaliasNil(cur.gt)
	}
	if p, ok := gt.Underlying().(*types.Pointer); ok {
		si := reg.structInfoOf(p.Elem())
		if si == nil {
			if key, vsort, ftyp, ok := reg.opaqueField(p.Elem(), fi); ok {
				h := vc.heapGet(te.st, key, "(Array Int "+vsort+")")
				return TV{t: "(select " + h + " " + cur.t + ")", sort: vsort, gt: ftyp}
			}
			return TV{}
		}
		t := vc.readField(te.st, cur.t, si, fi)
		te.wellFormed(cur.t, t, si.fields[fi].typ)
		return TV{t: t, sort: si.fields[fi].sort, gt: si.fields[fi].typ, wf: cur.t}
	}
	si := reg.structInfoOf(gt)
	if si == nil {
		return TV{}
	}
	t := "(" + accessor(si, fi) + " " + cur.t + ")"
	if cur.wf != "" {
		te.wellFormed(cur.wf, t, si.fields[fi].typ)
	}
	return TV{t: t, sort: si.fields[fi].sort, gt: si.fields[fi].typ, wf: cur.wf}
}

func (te *TEnv) nilOf(other TV) string {
	if other.ip != nil && other.t == "" {
		// pointer into an allocated object (embedded struct, field address): never nil
		return "false"
	}
	switch other.sort {
	case sortIface:
		return "(= (itag " + other.t + ") 0)"
	case sortSlice:
		return "(= (sref " + other.t + ") 0)"
	case sortMInt:
		return "(mi!nil " + other.t + ")"
	case sortAddr:
		return "(= " + other.t + " addr!nil)"
	case sortInt:
		return "(= " + other.t + " 0)"
	}
	te.fail("comparison of a %s value with nil", other.sort)
	return "false"
}

func (te *TEnv) binary(x *EBin) TV {
	switch x.Op {
	case "&&", "||", "==>", "<==>":
		var l string
		if x.Op == "==>" {
			te.neg = !te.neg
			l = te.formula(x.L)
			te.neg = !te.neg
		} else {
			l = te.formula(x.L)
		}
		r := te.formula(x.R)
		op := map[string]string{"&&": "and", "||": "or", "==>": "=>", "<==>": "="}[x.Op]
		return TV{t: "(" + op + " " + l + " " + r + ")", sort: sortBool}
	}
	l, r := te.term(x.L), te.term(x.R)
	switch x.Op {
	case "==", "!=":
		var eq string
		switch {
		case l.isNil && r.isNil:
			eq = "true"
		case r.isNil:
			eq = te.nilOf(l)
		case l.isNil:
			eq = te.nilOf(r)
		default:
			if l.sort != r.sort && l.sort != "" && r.sort != "" {
				te.fail("sort mismatch in %s: %s vs %s", exprString(x), l.sort, r.sort)
			}
			eq = "(= " + l.t + " " + r.t + ")"
		}
		if x.Op == "!=" {
			eq = "(not " + eq + ")"
		}
		return TV{t: eq, sort: sortBool}
	case "<", "<=", ">", ">=":
		return TV{t: "(" + x.Op + " " + l.t + " " + r.t + ")", sort: sortBool}
	case "+":
		if l.sort == sortString {
			return TV{t: "(str.++ " + l.t + " " + r.t + ")", sort: sortString}
		}
		return TV{t: "(+ " + l.t + " " + r.t + ")", sort: sortInt}
	case "-":
		return TV{t: "(- " + l.t + " " + r.t + ")", sort: sortInt}
	case "*":
		return TV{t: mulTerm(l.t, r.t), sort: sortInt}
	case "/":
		return TV{t: "(tdiv " + l.t + " " + r.t + ")", sort: sortInt}
	case "%":
		return TV{t: "(tmod " + l.t + " " + r.t + ")", sort: sortInt}
	}
	return te.fail("unsupported operator %s", x.Op)
}

func (te *TEnv) call(x *ECall) TV {
	vc := te.vc
	reg := vc.eng.types
	arg := func(i int) TV { return te.term(x.Args[i]) }
	need := func(n int) bool {
		if len(x.Args) != n {
			te.fail("%s expects %d arguments", x.Fn, n)
			return false
		}
		return true
	}
	if m, ok := vc.eng.specs.macros[x.Fn]; ok {
		if !need(len(m.Params)) {
			return TV{t: "false", sort: sortBool}
		}
		// call-by-value in the current state: arguments are translated once and named, so that a
		// macro body mentioning a parameter several times does not duplicate the argument term.
		inner := *te
		if m.Pkg != "" {
			for _, sp := range vc.eng.ssaPkgs {
				if sp != nil && sp.Pkg.Path() == m.Pkg {
					inner.pkg = sp
				}
			}
		}
		inner.errs = nil
		inner.vars = make(map[string]TV, len(te.vars)+len(m.Params))
		for k, v := range te.vars {
			inner.vars[k] = v
		}
		inner.macroParams = map[string]bool{}
		var argTVs []TV
		for i, p := range m.Params {
			a := arg(i)
			a = te.named(a, "m_"+p)
			inner.vars[p] = a
			inner.macroParams[p] = true
			argTVs = append(argTVs, a)
		}
		var reads []readRec
		vc.readLogs = append(vc.readLogs, &reads)
		r := inner.term(m.Body)
		vc.readLogs = vc.readLogs[:len(vc.readLogs)-1]
		te.errs = append(te.errs, inner.errs...)
		res := te.named(r, "m_"+m.Name)
		if res.t != r.t {
			vc.macroHandle(m.Name, res, argTVs, reads)
		}
		return res
	}
	switch x.Fn {
	case "len":
		if !need(1) {
			break
		}
		a := arg(0)
		switch a.sort {
		case sortSlice:
			return TV{t: "(slen " + a.t + ")", sort: sortInt}
		case sortString:
			return TV{t: "(str.len " + a.t + ")", sort: sortInt}
		}
		return te.fail("len of %s", a.sort)
	case "val":
		if need(1) {
			return TV{t: "(mi!val " + arg(0).t + ")", sort: sortInt}
		}
	case "isnil":
		if need(1) {
			a := arg(0)
			return TV{t: te.nilOf(a), sort: sortBool}
		}
	case "mkint":
		if need(1) {
			return TV{t: "(mkMInt false " + arg(0).t + ")", sort: sortMInt}
		}
	case "tag":
		if need(1) {
			return TV{t: "(itag " + arg(0).t + ")", sort: sortInt}
		}
	case "ref":
		if need(1) {
			a := arg(0)
			if a.sort == sortSlice {
				return TV{t: "(sref " + a.t + ")", sort: sortInt}
			}
			return TV{t: "(iref " + a.t + ")", sort: sortInt}
		}
	case "istype", "cast", "tagof":
		if x.Fn == "tagof" {
			if need(1) {
				s, ok := x.Args[0].(*EStr)
				if !ok {
					return te.fail("tagof needs a type string")
				}
				t := te.resolveType(s.V)
				if t == nil {
					return te.fail("unknown type %q", s.V)
				}
				return TV{t: reg.tagOf(t), sort: sortInt}
			}
			break
		}
		if !need(2) {
			break
		}
		s, ok := x.Args[1].(*EStr)
		if !ok {
			return te.fail("%s needs a type string", x.Fn)
		}
		t := te.resolveType(s.V)
		if t == nil {
			return te.fail("unknown type %q", s.V)
		}
		a := arg(0)
		if x.Fn == "istype" {
			if _, isIface := t.Underlying().(*types.Interface); isIface {
				return TV{t: vc.implementsTerm(a.t, t), sort: sortBool}
			}
			return TV{t: "(= (itag " + a.t + ") " + reg.tagOf(t) + ")", sort: sortBool}
		}
		fr := &frame{vc: vc}
		return TV{t: fr.unboxIface(t, a.t), sort: reg.sortOf(t), gt: t}
	case "ptrto":
		// ptrto(x, "*T"): the integer reference x (e.g. a ghost) viewed as a pointer of type *T
		if need(2) {
			s, ok := x.Args[1].(*EStr)
			if !ok {
				return te.fail("ptrto needs a type string")
			}
			t := te.resolveType(s.V)
			if t == nil {
				return te.fail("unknown type %q", s.V)
			}
			if _, isPtr := types.Unalias(t).Underlying().(*types.Pointer); !isPtr {
				return te.fail("ptrto needs a pointer type, got %s", s.V)
			}
			a := arg(0)
			if a.sort != sortInt {
				return te.fail("ptrto needs a reference (Int), got %s", a.sort)
			}
			return TV{t: a.t, sort: sortInt, gt: t}
		}
	case "box":
		// box(x, "T"): interface value holding x with dynamic type T
		if need(2) {
			s, ok := x.Args[1].(*EStr)
			if !ok {
				return te.fail("box needs a type string")
			}
			t := te.resolveType(s.V)
			if t == nil {
				return te.fail("unknown type %q", s.V)
			}
			a := arg(0)
			fr := &frame{vc: vc}
			return TV{t: fr.makeIface(t, Val{t: a.t}), sort: sortIface}
		}
	case "quad4":
		// quad4(a, b, c, d): the collections.Quad key with these components (instance chosen by sorts)
		if need(4) {
			as := []TV{arg(0), arg(1), arg(2), arg(3)}
			var names []string
			for n := range reg.structs {
				names = append(names, n)
			}
			sort.Strings(names)
			for _, n := range names {
				si := reg.structs[n]
				if si.named == nil || !isTupleKey(si.named) || len(si.fields) != 4 {
					continue
				}
				ok := true
				for i := range as {
					if si.fields[i].sort != as[i].sort {
						ok = false
					}
				}
				if ok {
					return TV{t: "(" + ctor(si) + " " + as[0].t + " " + as[1].t + " " + as[2].t + " " + as[3].t + ")", sort: si.sort, gt: si.named}
				}
			}
			return te.fail("quad4: no matching key type for sorts")
		}
	case "mk":
		// mk("T", f1, f2, ...): struct value of type T
		if len(x.Args) >= 1 {
			sv, ok := x.Args[0].(*EStr)
			if !ok {
				return te.fail("mk needs a type string")
			}
			t := te.resolveType(sv.V)
			if t == nil {
				return te.fail("unknown type %q", sv.V)
			}
			si := reg.structInfoOf(t)
			if si == nil || len(si.fields) != len(x.Args)-1 {
				return te.fail("mk(%s): wrong number of fields", sv.V)
			}
			if len(si.fields) == 0 {
				return TV{t: ctor(si), sort: si.sort, gt: t}
			}
			var as []string
			for i := 1; i < len(x.Args); i++ {
				as = append(as, arg(i).t)
			}
			return TV{t: "(" + ctor(si) + " " + strings.Join(as, " ") + ")", sort: si.sort, gt: t}
		}
	case "ite":
		if need(3) {
			c, a, b := te.formula(x.Args[0]), arg(1), arg(2)
			return TV{t: "(ite " + c + " " + a.t + " " + b.t + ")", sort: a.sort, gt: a.gt}
		}
	case "abs":
		if need(1) {
			a := arg(0)
			return TV{t: "(ite (>= " + a.t + " 0) " + a.t + " (- " + a.t + "))", sort: sortInt}
		}
	case "fresh":
		if need(1) {
			a := arg(0)
			return TV{t: "(and (> " + a.t + " " + te.old.alloc + ") (<= " + a.t + " " + te.st.alloc + "))", sort: sortBool}
		}
	case "allocated":
		if need(1) {
			a := arg(0)
			return TV{t: "(and (> " + a.t + " 0) (<= " + a.t + " " + te.st.alloc + "))", sort: sortBool}
		}
	case "elems":
		if need(1) {
			a := arg(0)
			sl, _ := underNil(a.gt).(*types.Slice)
			if sl == nil {
				return te.fail("elems of non-slice")
			}
			es := reg.sortOf(sl.Elem())
			return TV{t: vc.sliceContent(te.st, a.t, es), sort: "(Array Int " + es + ")"}
		}
	case "mapHas", "mapGet":
		if need(2) {
			m, k := arg(0), arg(1)
			mt, ok := underNil(m.gt).(*types.Map)
			if !ok || m.gt == nil {
				return te.fail("%s of non-map", x.Fn)
			}
			fr := &frame{vc: vc}
			pk, ps, vk, vs := fr.mapHeaps(mt)
			if x.Fn == "mapHas" {
				h := vc.heapGet(te.st, pk, ps)
				return TV{t: "(select (select " + h + " " + m.t + ") " + k.t + ")", sort: sortBool}
			}
			h := vc.heapGet(te.st, vk, vs)
			return TV{t: "(select (select " + h + " " + m.t + ") " + k.t + ")", sort: reg.sortOf(mt.Elem()), gt: mt.Elem()}
		}
	case "fieldframe":
		// fieldframe("pkg.Type", "field", p...): every object other than the listed ones keeps its field value
		if len(x.Args) >= 2 {
			ts, ok1 := x.Args[0].(*EStr)
			fs, ok2 := x.Args[1].(*EStr)
			if !ok1 || !ok2 {
				return te.fail("fieldframe needs type and field strings")
			}
			t := te.resolveType(ts.V)
			si := reg.structInfoOf(t)
			if si == nil {
				return te.fail("fieldframe: unknown struct type %q", ts.V)
			}
			for i, f := range si.fields {
				if f.name != fs.V {
					continue
				}
				key := heapKeyField(si, i)
				hs := "(Array Int " + f.sort + ")"
				now := vc.heapGet(te.st, key, hs)
				was := vc.heapGet(te.old, key, hs)
				conds := []string{"(> r!ff 0)", "(<= r!ff " + te.old.alloc + ")"}
				for k := 2; k < len(x.Args); k++ {
					conds = append(conds, "(not (= r!ff "+arg(k).t+"))")
				}
				return TV{t: "(forall ((r!ff Int)) (! (=> (and " + strings.Join(conds, " ") + ") (= (select " + now + " r!ff) (select " + was + " r!ff))) :pattern ((select " + now + " r!ff))))", sort: sortBool}
			}
			return te.fail("fieldframe: no field %s in %s", fs.V, ts.V)
		}
	case "toarray32":
		// toarray32(s): the [32]byte value a conversion of slice s yields
		if need(1) {
			a := arg(0)
			vc.declareRaw("arr32!Int", "(declare-fun arr32!Int ((Array Int Int) Int) (Array Int Int))")
			return TV{t: "(arr32!Int " + vc.sliceContent(te.st, a.t, "Int") + " (soff " + a.t + "))", sort: "(Array Int Int)"}
		}
	case "strbytes":
		// strbytes(s): abstract byte value of []byte(s)
		if need(1) {
			a := arg(0)
			return TV{t: "(bytesval (str2bytes " + a.t + ") 0 (str.len " + a.t + "))", sort: "BytesV"}
		}
	case "bytesof":
		// bytesof(s): abstract value of a []byte slice
		if need(1) {
			a := arg(0)
			return TV{t: vc.bytesVal(te.st, a.t), sort: "BytesV"}
		}
	case "deref":
		// deref(p): struct value pointed to by p
		if need(1) {
			a := arg(0)
			if a.ip != nil {
				return TV{t: vc.readLoc(te.st, a.ip), sort: reg.sortOf(a.ip.targetType()), gt: a.ip.targetType()}
			}
			if a.gt == nil {
				return te.fail("deref of untyped term in %s", exprString(x))
			}
			p, ok := underNil(a.gt).(*types.Pointer)
			if !ok {
				return te.fail("deref of non-pointer")
			}
			if si := reg.structInfoOf(p.Elem()); si != nil {
				return TV{t: vc.loadStruct(te.st, a.t, si), sort: si.sort, gt: p.Elem()}
			}
			if at, ok := types.Unalias(p.Elem()).Underlying().(*types.Array); ok {
				es := reg.sortOf(at.Elem())
				h := vc.heapGet(te.st, heapKeyElem(es), "(Array Int (Array Int "+es+"))")
				return TV{t: "(select " + h + " " + a.t + ")", sort: "(Array Int " + es + ")", gt: p.Elem()}
			}
			s := reg.sortOf(p.Elem())
			h := vc.heapGet(te.st, heapKeyCell(s), "(Array Int "+s+")")
			return TV{t: "(select " + h + " " + a.t + ")", sort: s, gt: p.Elem()}
		}
	}
	if x.Fn == "store" && len(x.Args) == 3 {
		a, i, v := arg(0), arg(1), arg(2)
		return TV{t: "(store " + a.t + " " + i.t + " " + v.t + ")", sort: a.sort}
	}
	if al, ok := smtAliases[x.Fn]; ok {
		var as []string
		for i := range x.Args {
			as = append(as, arg(i).t)
		}
		if al.name == "str.len" && len(as) == 1 && len(as[0]) >= 2 && as[0][0] == '"' && !strings.Contains(as[0][1:len(as[0])-1], "\"") && !strings.Contains(as[0], "\\u") {
			// the length of a literal is a number (keeps bounds reasoning out of the string theory)
			return TV{t: fmt.Sprint(len(as[0]) - 2), sort: sortInt}
		}
		return TV{t: "(" + al.name + " " + strings.Join(as, " ") + ")", sort: al.ret}
	}
	if sig, ok := vc.eng.specs.funSigs[x.Fn]; ok {
		if len(sig.args) != len(x.Args) {
			return te.fail("%s expects %d arguments, got %d", x.Fn, len(sig.args), len(x.Args))
		}
		if len(x.Args) == 0 {
			return TV{t: x.Fn, sort: sig.ret}
		}
		var as []string
		for i := range x.Args {
			a := arg(i)
			if a.isNil {
				a.t = "0"
			}
			if a.sort != "" && a.sort != sig.args[i] {
				te.fail("argument %d of %s has sort %s, want %s", i, x.Fn, a.sort, sig.args[i])
			}
			as = append(as, a.t)
		}
		return TV{t: "(" + x.Fn + " " + strings.Join(as, " ") + ")", sort: sig.ret}
	}
	return te.fail("unknown function %s", x.Fn)
}

// loc computes the location designated by an lvalue expression.
func (te *TEnv) loc(e Expr) *IPtr {
	vc := te.vc
	reg := vc.eng.types
	switch x := e.(type) {
	case *EIdent:
		if tv, ok := te.vars[x.Name]; ok && tv.ip != nil {
			return tv.ip
		}
	case *ESel:
		base := te.term(x.X)
		if base.ip == nil {
			if p, ok := underNil(base.gt).(*types.Pointer); ok && base.gt != nil {
				si := reg.structInfoOf(p.Elem())
				path, ok2 := findFieldPath(p.Elem(), x.Name, 0)
				if si != nil && ok2 && len(path) == 1 {
					return &IPtr{root: rootField, heap: heapKeyField(si, path[0]), vsort: si.fields[path[0]].sort, ref: base.t, rootT: si.fields[path[0]].typ}
				}
			}
		}
		inner := te.loc(x.X)
		if inner == nil {
			return nil
		}
		si := reg.structInfoOf(inner.targetType())
		if si == nil {
			return nil
		}
		for i, f := range si.fields {
			if f.name == x.Name {
				np := *inner
				np.path = append(append([]pathStep{}, inner.path...), pathStep{si, i})
				return &np
			}
		}
	case *EIndex:
		base := te.term(x.X)
		idx := te.term(x.I)
		if sl, ok := underNil(base.gt).(*types.Slice); ok && base.gt != nil {
			es := reg.sortOf(sl.Elem())
			return &IPtr{root: rootElem, heap: heapKeyElem(es), vsort: es, ref: "(sref " + base.t + ")", idx: "(+ (soff " + base.t + ") " + idx.t + ")", rootT: sl.Elem()}
		}
	}
	return nil
}

// havocDesignator havocs what a modifies item designates.
func (te *TEnv) havocDesignator(m ModItem, st *State) {
	vc := te.vc
	reg := vc.eng.types
	switch x := m.E.(type) {
	case *EIdent:
		if _, ok := vc.eng.specs.ghostSort[x.Name]; ok {
			vc.ghostHavoc(st, x.Name)
			return
		}
		switch x.Name {
		case "heap":
			for k := range st.heaps {
				vc.heapHavoc(st, k)
			}
			return
		case "ghosts":
			for g := range vc.eng.specs.ghostSort {
				vc.ghostHavoc(st, g)
			}
			return
		}
	case *ECall:
		switch x.Fn {
		case "fieldheap":
			if key := te.fieldHeapKey(x); key != "" {
				vc.heapHavoc(st, key)
				return
			}
		case "all":
			tv := te.term(x.Args[0])
			if p, ok := underNil(tv.gt).(*types.Pointer); ok && tv.gt != nil {
				if si := reg.structInfoOf(p.Elem()); si != nil {
					for i, f := range si.fields {
						vc.writeField(st, tv.t, si, i, vc.fresh("hv_"+f.name, f.sort))
					}
					return
				}
				s := reg.sortOf(p.Elem())
				vc.writeLoc(st, &IPtr{root: rootCell, heap: heapKeyCell(s), vsort: s, ref: tv.t, rootT: p.Elem()}, vc.fresh("hv", s))
				return
			}
		case "mapof":
			tv := te.term(x.Args[0])
			if mt, ok := underNil(tv.gt).(*types.Map); ok && tv.gt != nil {
				fr := &frame{vc: vc}
				pk, ps, vk, vs := fr.mapHeaps(mt)
				hp := vc.heapGet(st, pk, ps)
				hv := vc.heapGet(st, vk, vs)
				vc.logWrite(pk, tv.t)
				vc.logWrite(vk, tv.t)
				vc.heapSet(st, pk, ps, "(store "+hp+" "+tv.t+" "+vc.fresh("hv_mp", "(Array "+reg.sortOf(mt.Key())+" Bool)")+")")
				vc.heapSet(st, vk, vs, "(store "+hv+" "+tv.t+" "+vc.fresh("hv_mv", "(Array "+reg.sortOf(mt.Key())+" "+reg.sortOf(mt.Elem())+")")+")")
				return
			}
		case "elems":
			tv := te.term(x.Args[0])
			if sl, ok := underNil(tv.gt).(*types.Slice); ok && tv.gt != nil {
				es := reg.sortOf(sl.Elem())
				key := heapKeyElem(es)
				hs := "(Array Int (Array Int " + es + "))"
				h := vc.heapGet(st, key, hs)
				vc.logWrite(key, "(sref "+tv.t+")")
				vc.heapSet(st, key, hs, "(store "+h+" (sref "+tv.t+") "+vc.fresh("hv_elems", "(Array Int "+es+")")+")")
				return
			}
		}
	}
	te2 := te.withState(st)
	if ip := te2.loc(m.E); ip != nil {
		vc.writeLoc(st, ip, vc.fresh("hv", reg.sortOf(ip.targetType())))
		return
	}
	te.fail("cannot interpret modifies designator %s", m.Text)
}

func isNumeral(t string) bool {
	if t == "" {
		return false
	}
	for _, c := range t {
		if c < '0' || c > '9' {
			return false
		}
	}
	return true
}

// mulTerm: products of two symbolic terms are abstracted by the uninterpreted function mulI so that
// no nonlinear arithmetic is asked of the solvers (sound for validity: whatever holds for every
// function mulI holds for multiplication). Products with a numeral stay linear.
func mulTerm(a, b string) string {
	if isNumeral(a) || isNumeral(b) || strings.HasPrefix(a, "(- ") && isNumeral(strings.TrimSuffix(a[3:], ")")) || strings.HasPrefix(b, "(- ") && isNumeral(strings.TrimSuffix(b[3:], ")")) {
		return "(* " + a + " " + b + ")"
	}
	return "(mulI " + a + " " + b + ")"
}

// wellFormed: heap well-formedness. References stored in an allocated object of a state are
// themselves allocated in that state (Go has no dangling or future pointers).
func (te *TEnv) wellFormed(base, term string, t types.Type) {
	vc := te.vc
	if strings.Contains(term, "!q") || strings.Contains(base, "!q") {
		return // mentions a bound variable
	}
	var facts []string
	te.refFacts(term, t, 0, &facts)
	if len(facts) == 0 {
		return
	}
	fact := "(=> (and (> " + base + " 0) (<= " + base + " " + te.st.alloc + ")) (and " + strings.Join(facts, " ") + "))"
	vc.assumeOnce(fact)
}

func (te *TEnv) refFacts(term string, t types.Type, depth int, out *[]string) {
	if depth > 2 {
		return
	}
	t = types.Unalias(t)
	if isMathInt(t) || isAccAddress(t) {
		return
	}
	switch t.Underlying().(type) {
	case *types.Pointer, *types.Map:
		*out = append(*out, "(<= "+term+" "+te.st.alloc+")", "(>= "+term+" 0)")
	case *types.Slice:
		*out = append(*out, "(<= (sref "+term+") "+te.st.alloc+")", "(>= (slen "+term+") 0)", "(>= (soff "+term+") 0)")
	case *types.Interface:
		*out = append(*out, "(<= (iref "+term+") "+te.st.alloc+")")
	}
}

// named introduces a constant for a large closed term (no bound variables).
func (te *TEnv) named(tv TV, hint string) TV {
	if tv.ip != nil || tv.isNil || tv.sort == "" || len(tv.t) < 48 || strings.Contains(tv.t, "!q") {
		return tv
	}
	tv.t = te.vc.define(hint, tv.sort, tv.t)
	return tv
}

// fieldHeapKey: the heap of fieldheap("pkg.Type", "field") ("" when it does not name a field)
func (te *TEnv) fieldHeapKey(x *ECall) string {
	if len(x.Args) != 2 {
		te.fail("fieldheap needs a type and a field")
		return ""
	}
	ts, ok1 := x.Args[0].(*EStr)
	fs, ok2 := x.Args[1].(*EStr)
	if !ok1 || !ok2 {
		te.fail("fieldheap needs type and field strings")
		return ""
	}
	si := te.vc.eng.types.structInfoOf(te.resolveType(ts.V))
	if si == nil {
		te.fail("fieldheap: unknown struct type %q", ts.V)
		return ""
	}
	for i, f := range si.fields {
		if f.name == fs.V {
			key := heapKeyField(si, i)
			te.vc.heapGet(te.st, key, "(Array Int "+f.sort+")")
			return key
		}
	}
	te.fail("fieldheap: no field %s in %s", fs.V, ts.V)
	return ""
}
