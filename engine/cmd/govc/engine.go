package main

// Engine: loading of /repo, SSA construction, contract database, helper indexes.

import (
	"fmt"
	"go/ast"
	"go/constant"
	"go/token"
	"go/types"
	"os"
	"path/filepath"
	"sort"
	"strings"

	"golang.org/x/tools/go/packages"
	"golang.org/x/tools/go/ssa"
	"golang.org/x/tools/go/ssa/ssautil"
)

type mapEntry struct{ key, val string }

type Engine struct {
	repo         string
	verifDir     string
	outDir       string
	prog         *ssa.Program
	pkgs         []*packages.Package
	ssaPkgs      []*ssa.Package
	types        *TypeReg
	specs        *SpecDB
	fnByKey      map[string][]*ssa.Function
	allFns       []*ssa.Function
	useTypeInv   bool // object invariants (typeinv) are assumed: set in the runs that verify the constructors
	closures     map[string]*closureInfo
	globalIDs    map[string]int
	mapLits      map[string][]mapEntry
	constGlobals map[string]string
	specErrors   map[string]bool
	loadErrors   []string
	liveCache    map[*ssa.Function]map[*ssa.BasicBlock]map[ssa.Value]bool
	instIfaces   map[string]*types.Named
	verdictDecls []string
	selfIface    types.Type
	exemptNext   bool
	sentinelSet  map[*ssa.Function]bool
}

// liveIn returns the set of SSA values live on entry to block b (phi results of b included:
// they are assigned on the incoming edges).
func (e *Engine) liveIn(b *ssa.BasicBlock) map[ssa.Value]bool {
	fn := b.Parent()
	if e.liveCache == nil {
		e.liveCache = map[*ssa.Function]map[*ssa.BasicBlock]map[ssa.Value]bool{}
	}
	if m, ok := e.liveCache[fn]; ok {
		return m[b]
	}
	live := map[*ssa.BasicBlock]map[ssa.Value]bool{}
	for _, blk := range fn.Blocks {
		live[blk] = map[ssa.Value]bool{}
	}
	isTracked := func(v ssa.Value) bool {
		switch v.(type) {
		case *ssa.Const, *ssa.Global, *ssa.Function, *ssa.Builtin:
			return false
		}
		return true
	}
	changed := true
	for changed {
		changed = false
		for i := len(fn.Blocks) - 1; i >= 0; i-- {
			blk := fn.Blocks[i]
			cur := map[ssa.Value]bool{}
			// live-out: union of successors' live-in minus their phis, plus phi operands for this edge
			for _, s := range blk.Succs {
				predIdx := -1
				for pi, p := range s.Preds {
					if p == blk {
						predIdx = pi
					}
				}
				for v := range live[s] {
					if phi, ok := v.(*ssa.Phi); ok && phi.Block() == s {
						continue
					}
					cur[v] = true
				}
				for _, ins := range s.Instrs {
					phi, ok := ins.(*ssa.Phi)
					if !ok {
						break
					}
					if predIdx >= 0 && isTracked(phi.Edges[predIdx]) {
						cur[phi.Edges[predIdx]] = true
					}
				}
			}
			// backwards through instructions
			for j := len(blk.Instrs) - 1; j >= 0; j-- {
				ins := blk.Instrs[j]
				if v, ok := ins.(ssa.Value); ok {
					if _, isPhi := ins.(*ssa.Phi); !isPhi {
						delete(cur, v)
					}
				}
				if _, isPhi := ins.(*ssa.Phi); isPhi {
					continue
				}
				for _, op := range ins.Operands(nil) {
					if *op != nil && isTracked(*op) {
						cur[*op] = true
					}
				}
			}
			// phis of this block are live-in (assigned on edges)
			for _, ins := range blk.Instrs {
				phi, ok := ins.(*ssa.Phi)
				if !ok {
					break
				}
				cur[phi] = true
			}
			if len(cur) != len(live[blk]) {
				changed = true
				live[blk] = cur
			} else {
				for v := range cur {
					if !live[blk][v] {
						changed = true
						live[blk] = cur
						break
					}
				}
			}
		}
	}
	e.liveCache[fn] = live
	return live[b]
}

func (e *Engine) globalID(name string) int {
	if id, ok := e.globalIDs[name]; ok {
		return id
	}
	id := len(e.globalIDs) + 1
	e.globalIDs[name] = id
	return id
}

func loadEngine(repo, verifDir string) (*Engine, error) {
	outDir := os.Getenv("VERIF_OUT")
	if outDir == "" {
		outDir = verifDir
	}
	e := &Engine{repo: repo, verifDir: verifDir, outDir: outDir, types: newTypeReg(), specs: newSpecDB(), fnByKey: map[string][]*ssa.Function{},
		closures: map[string]*closureInfo{}, globalIDs: map[string]int{}, mapLits: map[string][]mapEntry{}, constGlobals: map[string]string{}, specErrors: map[string]bool{}}
	env := []string{}
	for _, kv := range os.Environ() {
		if strings.HasPrefix(kv, "GOFLAGS=") || strings.HasPrefix(kv, "GOWORK=") {
			continue
		}
		env = append(env, kv)
	}
	env = append(env, "GOFLAGS=", "GOPROXY=off")
	cfg := &packages.Config{
		Mode:       packages.LoadSyntax,
		Dir:        repo,
		BuildFlags: []string{"-tags=verif"},
		Env:        env,
	}
	pkgs, err := packages.Load(cfg, "./...")
	if err != nil {
		return nil, err
	}
	for _, p := range pkgs {
		for _, pe := range p.Errors {
			e.loadErrors = append(e.loadErrors, pe.Error())
		}
	}
	e.pkgs = pkgs
	prog, spkgs := ssautil.Packages(pkgs, ssa.InstantiateGenerics|ssa.GlobalDebug)
	prog.Build()
	e.prog = prog
	e.ssaPkgs = spkgs
	for fn := range ssautil.AllFunctions(prog) {
		e.allFns = append(e.allFns, fn)
	}
	sort.Slice(e.allFns, func(i, j int) bool { return e.allFns[i].String() < e.allFns[j].String() })
	for _, fn := range e.allFns {
		k := fnKey(fn)
		e.fnByKey[k] = append(e.fnByKey[k], fn)
	}
	// contracts: assumed specs and in-repo contract files
	if err := e.specs.loadSpecDir(filepath.Join(verifDir, "specs")); err != nil {
		return nil, err
	}
	for _, p := range pkgs {
		for _, f := range p.CompiledGoFiles {
			if strings.HasSuffix(f, "contracts_verif.go") {
				if err := e.specs.loadContractFile(f, p.PkgPath); err != nil {
					return nil, err
				}
			}
		}
	}
	e.scanMapLiterals()
	// logic functions introduced by pure-verdict clauses
	for k, ct := range e.specs.contracts {
		if ct.PureVerdict == "" && ct.PureResult == "" {
			continue
		}
		fn := e.lookupFn(k)
		if fn == nil {
			continue
		}
		var sorts []string
		for _, p := range fn.Params {
			sorts = append(sorts, e.types.sortOf(p.Type()))
		}
		if ct.PureVerdict != "" {
			e.specs.funSigs[ct.PureVerdict] = funSig{args: sorts, ret: sortBool}
			e.verdictDecls = append(e.verdictDecls, "(declare-fun "+ct.PureVerdict+" ("+strings.Join(sorts, " ")+") Bool)")
		}
		if ct.PureResult != "" && fn.Signature.Results().Len() > 0 {
			rs := e.types.sortOf(fn.Signature.Results().At(0).Type())
			e.specs.funSigs[ct.PureResult] = funSig{args: sorts, ret: rs}
			e.verdictDecls = append(e.verdictDecls, "(declare-fun "+ct.PureResult+" ("+strings.Join(sorts, " ")+") "+rs+")")
		}
	}
	sort.Strings(e.verdictDecls)
	// register the struct sorts that ghost declarations and SMT preamble lines mention by name
	e.registerNamedSorts()
	e.instIfaces = map[string]*types.Named{}
	for _, p := range pkgs {
		if p.TypesInfo == nil {
			continue
		}
		for _, tv := range p.TypesInfo.Types {
			n, ok := types.Unalias(tv.Type).(*types.Named)
			if !ok || n.TypeArgs() == nil || n.TypeArgs().Len() == 0 {
				continue
			}
			if isTupleKey(n) {
				closed := true
				for i := 0; i < n.TypeArgs().Len(); i++ {
					if _, isTP := types.Unalias(n.TypeArgs().At(i)).(*types.TypeParam); isTP {
						closed = false
					}
				}
				if closed {
					e.types.sortOf(n) // register key tuples eagerly (ghost declarations name their sorts)
				}
			}
			if _, isIface := n.Underlying().(*types.Interface); !isIface {
				continue
			}
			var parts []string
			for i := 0; i < n.TypeArgs().Len(); i++ {
				parts = append(parts, types.TypeString(n.TypeArgs().At(i), func(p *types.Package) string { return p.Name() }))
			}
			e.instIfaces[qualifiedName(n)+"["+strings.Join(parts, ",")+"]"] = n
		}
	}
	return e, nil
}

// scanMapLiterals reads package-level `var X = map[K]V{const: const, ...}` declarations
// (the generated enum name/value maps) from the syntax of every in-repo package.
func (e *Engine) scanMapLiterals() {
	for _, p := range e.pkgs {
		for _, f := range p.Syntax {
			for _, d := range f.Decls {
				gd, ok := d.(*ast.GenDecl)
				if !ok || gd.Tok != token.VAR {
					continue
				}
				for _, s := range gd.Specs {
					vs := s.(*ast.ValueSpec)
					for i, n := range vs.Names {
						if i >= len(vs.Values) {
							continue
						}
						if tvv, ok := p.TypesInfo.Types[vs.Values[i]]; ok && tvv.Value != nil {
							// package-level variable initialised with a constant expression
							e.constGlobals[p.PkgPath+"."+n.Name] = constTerm(tvv.Value)
							continue
						}
						cl, ok := vs.Values[i].(*ast.CompositeLit)
						if !ok {
							continue
						}
						tv, ok := p.TypesInfo.Types[cl]
						if !ok {
							continue
						}
						if _, isMap := tv.Type.Underlying().(*types.Map); !isMap {
							continue
						}
						var entries []mapEntry
						good := true
						for _, el := range cl.Elts {
							kv, ok := el.(*ast.KeyValueExpr)
							if !ok {
								good = false
								break
							}
							k, kok := p.TypesInfo.Types[kv.Key]
							v, vok := p.TypesInfo.Types[kv.Value]
							if !kok || !vok || k.Value == nil || v.Value == nil {
								good = false
								break
							}
							entries = append(entries, mapEntry{constTerm(k.Value), constTerm(v.Value)})
						}
						if good {
							e.mapLits[p.PkgPath+"."+n.Name] = entries
						}
					}
				}
			}
		}
	}
}

func constTerm(v constant.Value) string {
	switch v.Kind() {
	case constant.Int:
		return smtInt(v.ExactString())
	case constant.String:
		return smtString(constant.StringVal(v))
	case constant.Bool:
		return fmt.Sprint(constant.BoolVal(v))
	}
	return "0"
}

func (e *Engine) mapLiteral(g *ssa.Global) []mapEntry {
	if g.Pkg == nil {
		return nil
	}
	return e.mapLits[g.Pkg.Pkg.Path()+"."+g.Name()]
}

// globalsWritten scans in-repo functions for stores to package-level variables outside init.
func (e *Engine) globalsWritten() []string {
	var out []string
	for _, fn := range e.allFns {
		if fn.Pkg == nil || !inRepo(fn.Pkg.Pkg) || fn.Name() == "init" || strings.HasPrefix(fn.Name(), "init#") {
			continue
		}
		for _, b := range fn.Blocks {
			for _, ins := range b.Instrs {
				if st, ok := ins.(*ssa.Store); ok {
					if g, ok := st.Addr.(*ssa.Global); ok && e.reliedOnGlobal(g) {
						out = append(out, fmt.Sprintf("%s written in %s", g.String(), fn.String()))
					}
				}
				if mu, ok := ins.(*ssa.MapUpdate); ok {
					if un, ok := mu.Map.(*ssa.UnOp); ok {
						if g, ok := un.X.(*ssa.Global); ok && e.reliedOnGlobal(g) {
							out = append(out, fmt.Sprintf("%s updated in %s", g.String(), fn.String()))
						}
					}
				}
			}
		}
	}
	return out
}

func (e *Engine) lookupFn(key string) *ssa.Function {
	fs := e.fnByKey[key]
	if len(fs) == 0 {
		return nil
	}
	// prefer non-generic-origin instance with a body
	for _, f := range fs {
		if len(f.Blocks) > 0 && f.TypeParams().Len() == 0 {
			return f
		}
	}
	return fs[0]
}

// instances returns all concrete functions for a contract key.
func (e *Engine) instances(key string) []*ssa.Function {
	var out []*ssa.Function
	for _, f := range e.fnByKey[key] {
		if len(f.Blocks) > 0 && (f.TypeParams().Len() == 0 || len(f.TypeArgs()) > 0) {
			out = append(out, f)
		}
	}
	return out
}

// pkgOfFn: the package a function belongs to (also for instantiations and synthetic wrappers).
func (e *Engine) pkgOfFn(fn *ssa.Function) *ssa.Package {
	if fn.Pkg != nil {
		return fn.Pkg
	}
	if o := fn.Origin(); o != nil && o.Pkg != nil {
		return o.Pkg
	}
	if recv := fn.Signature.Recv(); recv != nil {
		t := recv.Type()
		if p, ok := t.(*types.Pointer); ok {
			t = p.Elem()
		}
		if n, ok := types.Unalias(t).(*types.Named); ok && n.Obj().Pkg() != nil {
			return e.prog.Package(n.Obj().Pkg())
		}
	}
	return nil
}

// contractPkg: the package in which an interface-method contract was written (the package of the
// interface named in the key), falling back to the method's package.
func (e *Engine) contractPkg(key string, fallback *types.Package) *ssa.Package {
	if strings.HasPrefix(key, "(") {
		if i := strings.LastIndex(key, ")."); i > 0 {
			tname := key[1:i]
			if j := strings.Index(tname, "["); j >= 0 {
				tname = tname[:j]
			}
			if dot := strings.LastIndex(tname, "."); dot > 0 {
				for _, p := range e.prog.AllPackages() {
					if p.Pkg.Path() == tname[:dot] {
						return p
					}
				}
			}
		}
	}
	if fallback != nil {
		return e.prog.Package(fallback)
	}
	return nil
}

// registerNamedSorts resolves T_* sort names used in ghost declarations / preamble lines to Go struct
// types (by their generated sort name) and registers them, so that field selection on ghost records
// works before the type has been met in code.
func (e *Engine) registerNamedSorts() {
	want := map[string]bool{}
	collect := func(s string) {
		for _, tok := range strings.FieldsFunc(s, func(c rune) bool { return c == '(' || c == ')' || c == ' ' }) {
			if strings.HasPrefix(tok, "T_") && !strings.Contains(tok, "!") {
				want[tok] = true
			}
		}
	}
	for _, g := range e.specs.ghosts {
		collect(g.Sort)
	}
	for _, l := range e.specs.preamble {
		collect(l)
	}
	if len(want) == 0 {
		return
	}
	for _, p := range e.prog.AllPackages() {
		sc := p.Pkg.Scope()
		for _, name := range sc.Names() {
			tn, ok := sc.Lookup(name).(*types.TypeName)
			if !ok {
				continue
			}
			n, ok := tn.Type().(*types.Named)
			if !ok || n.TypeParams().Len() > 0 {
				continue
			}
			st, ok := n.Underlying().(*types.Struct)
			if !ok {
				continue
			}
			if want[shortTypeName(n)] {
				e.types.structSort(n, st)
			}
		}
	}
}

// reliedOnGlobal: package-level variables the verification reads as fixed values - the generated enum
// maps, constant-initialised variables, and hand-written variables (error sentinels, module
// addresses, prefixes). Descriptor tables of generated protobuf code are not read by any verified path.
func (e *Engine) reliedOnGlobal(g *ssa.Global) bool {
	if g.Pkg == nil || !inRepo(g.Pkg.Pkg) {
		return false
	}
	key := g.Pkg.Pkg.Path() + "." + g.Name()
	if _, ok := e.mapLits[key]; ok {
		return true
	}
	if _, ok := e.constGlobals[key]; ok {
		return true
	}
	file := e.prog.Fset.Position(g.Pos()).Filename
	if strings.HasSuffix(file, ".pb.go") || strings.HasSuffix(file, ".pulsar.go") || strings.HasSuffix(file, ".pb.gw.go") {
		return false
	}
	return true
}
