package main

// The iterator rule for collections' Walk.
//
//   err := c.Walk(ctx, nil, func(key K[, value V]) (stop bool, err error) { ... })
//
// The callback is a closure of the enclosing function (it usually appends to a captured slice). The
// trusted spec of Walk names an enumeration of the collection's key set: `walks lenFn atFn :: setExpr
// [:: valueExpr]` - lenFn(S) keys, the i-th being atFn(S, i), where S is the value of setExpr (the ghost
// membership array of the collection); for maps valueExpr (over `wkey`) is the stored value. The axioms that
// make it an enumeration (every enumerated key is a member, no key twice, every member is enumerated) are
// in the spec file. Walk calls the callback for i = 0, 1, ... in that order, stops with the callback's
// error, or with nil when it says stop or the keys are exhausted.
//
// The implicit loop is cut like a source loop, with invariants the enclosing function's contract gives as
//   //@ walk N invariant[...] <formula over widx and the enclosing function's variables>
// (N: ordinal of the Walk call in the function; widx: number of keys processed so far):
//   walk-init : the invariants hold for widx = 0
//   havoc     : everything one run of the callback may write (learned from a speculative run)
//   assume    : the invariants for an arbitrary 0 <= widx <= len
//   body      : for widx < len the callback runs on key atFn(S, widx)
//   walk-step : if it returns (false, nil) the invariants hold for widx + 1
//   exits     : callback error -> Walk returns it; stop -> nil; widx == len -> nil.

import (
	"fmt"
	"go/types"
	"strings"

	"golang.org/x/tools/go/ssa"
)

// walkOrdinal: position of the call among the function's calls to a method named Walk, in source order.
func walkOrdinal(fn *ssa.Function, instr ssa.Value) int {
	n := 0
	for _, b := range fn.Blocks {
		for _, ins := range b.Instrs {
			c, ok := ins.(*ssa.Call)
			if !ok {
				continue
			}
			if callee := c.Call.StaticCallee(); callee != nil && (callee.Name() == "Walk" || strings.HasPrefix(callee.Name(), "Walk[")) {
				if ssa.Value(c) == instr {
					return n
				}
				n++
			}
		}
	}
	return -1
}

func (fr *frame) execWalk(ct *Contract, args []Val, argTypes []types.Type, st *State, alive, pos string, cpkg *ssa.Package, instr ssa.Value) (Val, string, bool) {
	vc := fr.vc
	if len(args) == 0 {
		return Val{}, "", false
	}
	ci := vc.eng.closures[args[len(args)-1].t]
	if ci == nil || ci.fn == nil {
		vc.note("Walk with a callback that is not a closure literal of the caller: havocked")
		return Val{}, "", false
	}
	ordinal := walkOrdinal(fr.fn, instr)
	if ordinal < 0 {
		return Val{}, "", false
	}
	var invs []*Clause
	if fr.contract != nil && fr.contract.Walks[ordinal] != nil {
		for _, c := range fr.contract.Walks[ordinal].Invs {
			if c.inSlice(vc.slice) {
				invs = append(invs, c)
			}
		}
	}
	// the key set, in the callee's parameter vocabulary, evaluated before the walk
	teS := vc.newTEnv(st, st, cpkg)
	for i, n := range ct.Params {
		if i < len(args) && i < len(argTypes) {
			teS.bind(n, args[i], argTypes[i])
		}
	}
	stv := teS.term(ct.WalkSet)
	if stv.sort == "" || len(teS.errs) > 0 {
		return Val{}, "", false
	}
	S := vc.define("walkset", stv.sort, stv.t)
	lenT := "(" + ct.WalkLen + " " + S + ")"
	vc.assume("true", "(>= "+lenT+" 0)")
	// the spec's postconditions (the enumeration facts of this key set) hold independently of the callback
	for _, cl := range ct.Ensures {
		if cl.inSlice(vc.calleeSlice()) {
			vc.assume(alive, teS.formula(cl.E))
		}
	}
	walkTE := func(state *State, widx string) *TEnv {
		te := fr.namesEnv(state)
		te.vars["widx"] = TV{t: widx, sort: sortInt}
		return te
	}
	name := fmt.Sprintf("%s#walk%d", shortFn(fr.fn), ordinal)
	// 1. init
	for _, c := range invs {
		vc.oblige("walk-init", name+"-init", pos, "walk invariant "+c.Text+" ["+c.Src+"]", alive, walkTE(st, "0").goalFormula(c.E), c.Tags)
	}
	sig := ci.fn.Signature
	mkArgs := func(state *State, widx string) []Val {
		keyT := "(" + ct.WalkAt + " " + S + " " + widx + ")"
		kt := sig.Params().At(0).Type()
		kv := Val{t: vc.define("wkey", vc.eng.types.sortOf(kt), keyT)}
		out := []Val{kv}
		if sig.Params().Len() > 1 && ct.WalkVal != nil {
			teV := vc.newTEnv(state, state, cpkg)
			for i, n := range ct.Params {
				if i < len(args) && i < len(argTypes) {
					teV.bind(n, args[i], argTypes[i])
				}
			}
			teV.vars["wkey"] = TV{t: kv.t, sort: vc.eng.types.sortOf(kt), gt: kt}
			vv := teV.term(ct.WalkVal)
			out = append(out, Val{t: vv.t})
		}
		return out
	}
	if sig.Params().Len() > 1 && ct.WalkVal == nil {
		return Val{}, "", false
	}
	// 2. what may one run of the callback write? (speculative run)
	nAssert, nObl, nNotes, nDecl, nLog := len(vc.asserts), len(vc.obls), len(vc.notes), len(vc.decls), len(vc.writeLog)
	vc.quiet++
	spec := st.clone()
	w0 := vc.fresh("widx_spec", sortInt)
	vc.nextFreeVars = ci.bindings
	_, specOut, _ := vc.execFunc(ci.fn, mkArgs(spec, w0), spec, alive, fr.depth+1, nil)
	vc.quiet--
	specLog := append([]writeRec{}, vc.writeLog[nLog:]...)
	vc.writeLog = vc.writeLog[:nLog]
	vc.asserts = vc.asserts[:nAssert]
	vc.obls = vc.obls[:nObl]
	if len(vc.notes) > nNotes {
		vc.notes = vc.notes[:nNotes]
	}
	modH, modG := map[string]bool{}, map[string]bool{}
	for k, t := range specOut.heaps {
		if st.heaps[k] != t {
			if _, had := st.heaps[k]; !had && t == k+"~0" {
				continue
			}
			modH[k] = true
		}
	}
	for k, t := range specOut.ghosts {
		if st.ghosts[k] != t {
			if _, had := st.ghosts[k]; !had && t == "G!"+sanitize(k)+"~0" {
				continue
			}
			modG[k] = true
		}
	}
	// 3. havoc and assume the invariants for an arbitrary number of processed keys
	vc.havocModified(st, modH, modG, specLog, nDecl)
	na := vc.fresh("alloc_walk", sortInt)
	vc.assume("true", "(>= "+na+" "+st.alloc+")")
	st.alloc = na
	widx := vc.fresh("widx", sortInt)
	vc.assume(alive, "(and (<= 0 "+widx+") (<= "+widx+" "+lenT+"))")
	vc.noteIndexTerm(widx)
	for _, c := range invs {
		vc.assume(alive, walkTE(st, widx).formula(c.E))
	}
	cont := vc.define("walk_more", sortBool, and(alive, "(< "+widx+" "+lenT+")"))
	done := vc.define("walk_done", sortBool, and(alive, "(= "+widx+" "+lenT+")"))
	// 4. one run of the callback
	body := st.clone()
	vc.nextFreeVars = ci.bindings
	res, out, ret := vc.execFunc(ci.fn, mkArgs(body, widx), body, cont, fr.depth+1, nil)
	if len(res) != 2 {
		return Val{}, "", false
	}
	stop, cerr := res[0].t, res[1].t
	errExit := vc.define("walk_err", sortBool, and(ret, "(not (= (itag "+cerr+") 0))"))
	stopExit := vc.define("walk_stop", sortBool, and(ret, and("(= (itag "+cerr+") 0)", stop)))
	next := vc.define("walk_next", sortBool, and(ret, and("(= (itag "+cerr+") 0)", "(not "+stop+")")))
	// 5. step
	for _, c := range invs {
		vc.oblige("walk-step", name+"-step", pos, "walk invariant "+c.Text+" ["+c.Src+"]", next, walkTE(out, "(+ "+widx+" 1)").goalFormula(c.E), c.Tags)
	}
	// 6. exits
	pays := []edgePayload{{cond: errExit, st: out}, {cond: stopExit, st: out}, {cond: done, st: st.clone()}}
	merged, _, reach := vc.mergeIn(pays, fmt.Sprintf("%s_walk%d", fr.fn.Name(), ordinal), nil)
	fr.setState(st, merged)
	rv := vc.mergeVals([]string{errExit, stopExit, done}, []Val{{t: cerr}, {t: "(mkIface 0 0)"}, {t: "(mkIface 0 0)"}}, sortIface, "walk_ret")
	return rv, reach, true
}

// namesEnv: the enclosing function's parameters and address-taken locals by their source names.
func (fr *frame) namesEnv(st *State) *TEnv {
	vc := fr.vc
	te := vc.newTEnv(st, fr.entry, vc.eng.pkgOfFn(fr.fn))
	names := map[int]string{}
	if fr.contract != nil {
		for i, n := range fr.contract.Params {
			names[i] = n
		}
	}
	for i, p := range fr.fn.Params {
		n := p.Name()
		if cn, ok := names[i]; ok {
			n = cn
		}
		if i < len(fr.args) {
			te.bind(n, fr.args[i], p.Type())
			if p.Name() != n {
				te.bind(p.Name(), fr.args[i], p.Type())
			}
		}
	}
	for _, b := range fr.fn.Blocks {
		for _, ins := range b.Instrs {
			if a, ok := ins.(*ssa.Alloc); ok && a.Comment != "" && a.Comment != "complit" && a.Comment != "varargs" {
				if v, ok := fr.curEnv[a]; ok {
					if _, taken := te.vars[a.Comment]; !taken {
						et := a.Type().(*types.Pointer).Elem()
						if _, isStruct := types.Unalias(et).Underlying().(*types.Struct); isStruct || v.ip != nil || isMathInt(et) {
							te.bind(a.Comment, v, a.Type())
						} else {
							// a captured variable of non-struct type: the name denotes its current content
							es := vc.eng.types.sortOf(et)
							h := vc.heapGet(st, heapKeyCell(es), "(Array Int "+es+")")
							te.bind(a.Comment, Val{t: "(select " + h + " " + v.t + ")"}, et)
						}
					}
				}
			}
		}
	}
	if fr.contract != nil {
		te.withState(fr.entry).bindLets(fr.contract, true)
	}
	return te
}
