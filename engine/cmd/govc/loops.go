package main

// Unrolled-graph construction, block scheduling, loop cutting with invariants.

import (
	"fmt"
	"go/ast"
	"go/token"
	"go/types"
	"sort"
	"strings"

	"golang.org/x/tools/go/ssa"
)

func (fr *frame) copies(b *ssa.BasicBlock) int {
	l := fr.loopOf[b]
	if l == nil || l.unroll == 0 {
		return 1
	}
	if b == l.header {
		return l.unroll + 1
	}
	return l.unroll
}

// edgeTarget returns the target node of CFG edge u(copy ui) -> v and its kind ("", "unwind", "back").
func (fr *frame) edgeTarget(u *ssa.BasicBlock, ui int, v *ssa.BasicBlock) (nkey, string) {
	lu, lv := fr.loopOf[u], fr.loopOf[v]
	if lv != nil && lv == lu {
		if v == lv.header {
			if lv.unroll == 0 {
				return nkey{}, "back"
			}
			return nkey{v.Index, ui + 1}, ""
		}
		if lv.unroll > 0 && u == lv.header && ui == lv.unroll {
			return nkey{}, "unwind"
		}
		return nkey{v.Index, ui}, ""
	}
	return nkey{v.Index, 0}, ""
}

func (fr *frame) buildGraph() {
	fn := fr.fn
	fr.succs = map[nkey][]nkey{}
	indeg := map[nkey]int{}
	var allNodes []nkey
	for _, b := range fn.Blocks {
		for i := 0; i < fr.copies(b); i++ {
			allNodes = append(allNodes, nkey{b.Index, i})
		}
	}
	for _, b := range fn.Blocks {
		for i := 0; i < fr.copies(b); i++ {
			seen := map[nkey]bool{}
			for _, s := range b.Succs {
				t, kind := fr.edgeTarget(b, i, s)
				if kind == "" && !seen[t] {
					seen[t] = true
					fr.succs[nkey{b.Index, i}] = append(fr.succs[nkey{b.Index, i}], t)
					indeg[t]++
				}
			}
		}
	}
	var ready []nkey
	deg := map[nkey]int{}
	for _, n := range allNodes {
		deg[n] = indeg[n]
		if deg[n] == 0 {
			ready = append(ready, n)
		}
	}
	fr.order = nil
	for len(ready) > 0 {
		sort.Slice(ready, func(i, j int) bool {
			if ready[i].iter != ready[j].iter {
				return ready[i].iter < ready[j].iter
			}
			return ready[i].idx < ready[j].idx
		})
		n := ready[0]
		ready = ready[1:]
		fr.order = append(fr.order, n)
		for _, t := range fr.succs[n] {
			deg[t]--
			if deg[t] == 0 {
				ready = append(ready, t)
			}
		}
	}
}

// run executes the nodes of order that receive incoming payloads.
func (fr *frame) run(order []nkey, incoming map[nkey][]edgePayload, rc *runCtx) {
	vc := fr.vc
	fn := fr.fn
	for _, n := range order {
		ins := incoming[n]
		if len(ins) == 0 {
			continue
		}
		b := fn.Blocks[n.idx]
		if rc.region != nil && !rc.region[b] {
			continue
		}
		cur, env, breach := vc.mergeIn(ins, fmt.Sprintf("%s_b%d_%d", fn.Name(), n.idx, n.iter), b)
		delete(incoming, n)

		l := fr.loopOf[b]
		if l != nil && l.unroll == 0 && b == l.header && rc.header != b {
			breach = fr.cutLoopHeader(l, cur, env, breach)
		}

		alive := breach
	instrs:
		for _, ins := range b.Instrs {
			switch x := ins.(type) {
			case *ssa.Phi:
				continue
			case *ssa.If:
				c := fr.operand(x.Cond, env)
				condT := c.t
				if b.Succs[0] == b.Succs[1] {
					fr.sendEdge(b, n.iter, b.Succs[0], alive, cur, env, incoming, rc)
				} else {
					fr.sendEdge(b, n.iter, b.Succs[0], and(alive, condT), cur, env, incoming, rc)
					fr.sendEdge(b, n.iter, b.Succs[1], and(alive, "(not "+condT+")"), cur, env, incoming, rc)
				}
				break instrs
			case *ssa.Jump:
				fr.sendEdge(b, n.iter, b.Succs[0], alive, cur, env, incoming, rc)
				break instrs
			case *ssa.Return:
				var vals []Val
				for _, r := range x.Results {
					vals = append(vals, fr.operand(r, env))
				}
				fr.schemaC03(alive, vals, vc.pos(x.Pos()), false)
				rc.rets = append(rc.rets, retInfo{alive, vals, cur})
				break instrs
			case *ssa.Panic:
				if c := vc.catching(); c != nil && vc.quiet == 0 {
					c.panicAt(alive, cur)
				}
				if vc.catching() == nil && vc.safety {
					vc.oblige("safety", shortFn(fn)+"#safety:panic", vc.pos(x.Pos()), "explicit panic is unreachable", alive, "false", []string{vc.safetyTag()})
				}
				break instrs
			default:
				alive = fr.execInstr(ins, cur, env, alive)
			}
		}
	}
}

// invariant environment: parameters, named header phis, idx
func (fr *frame) invEnv(l *loopInfo, st *State, env map[ssa.Value]Val) *TEnv {
	vc := fr.vc
	te := vc.newTEnv(st, fr.entry, vc.eng.pkgOfFn(fr.fn))
	if own := l.foreign; own != nil {
		// adopted loop contract (adopt.go): the names of the function the contract belongs to come first
		te = vc.newTEnv(st, own.entry, vc.eng.pkgOfFn(own.fn))
		for i, p := range own.fn.Params {
			if i >= len(own.args) {
				break
			}
			if own.contract != nil && i < len(own.contract.Params) {
				te.bind(own.contract.Params[i], own.args[i], p.Type())
			}
			if _, taken := te.vars[p.Name()]; !taken {
				te.bind(p.Name(), own.args[i], p.Type())
			}
		}
	}
	foreignBound := map[string]bool{}
	for k := range te.vars {
		foreignBound[k] = true
	}
	// parameters
	names := map[int]string{}
	if fr.contract != nil {
		for i, n := range fr.contract.Params {
			names[i] = n
		}
	}
	for i, p := range fr.fn.Params {
		n := p.Name()
		if cn, ok := names[i]; ok {
			n = cn
		}
		if i < len(fr.args) {
			if !foreignBound[n] {
				te.bind(n, fr.args[i], p.Type())
			}
			if p.Name() != n && !foreignBound[p.Name()] {
				te.bind(p.Name(), fr.args[i], p.Type())
			}
		}
	}
	// address-taken locals declared before the loop, by their source names
	for _, b := range fr.fn.Blocks {
		if b != l.header && !b.Dominates(l.header) {
			continue
		}
		for _, ins := range b.Instrs {
			if a, ok := ins.(*ssa.Alloc); ok && a.Comment != "" && a.Comment != "complit" && a.Comment != "varargs" {
				if v, ok := env[a]; ok {
					if _, taken := te.vars[a.Comment]; !taken {
						te.bind(a.Comment, v, a.Type())
					}
				}
			}
		}
	}
	// other locals declared before the loop, through the debug references go/ssa keeps for them
	for _, b := range fr.fn.Blocks {
		if b != l.header && !b.Dominates(l.header) {
			continue
		}
		for _, ins := range b.Instrs {
			d, ok := ins.(*ssa.DebugRef)
			if !ok || d.IsAddr {
				continue
			}
			id, ok := d.Expr.(*ast.Ident)
			if !ok {
				continue
			}
			if _, isPhi := d.X.(*ssa.Phi); isPhi {
				continue
			}
			if v, ok := env[d.X]; ok {
				if _, taken := te.vars[id.Name]; !taken {
					te.bind(id.Name, v, d.X.Type())
				}
			}
		}
	}
	for _, ins := range l.header.Instrs {
		phi, ok := ins.(*ssa.Phi)
		if !ok {
			break
		}
		v := env[phi]
		if phi.Comment == "rangeindex" {
			te.vars["idx"] = TV{t: "(+ " + v.t + " 1)", sort: sortInt}
			continue
		}
		if phi.Comment != "" {
			te.bind(phi.Comment, v, phi.Type())
		}
	}
	if _, has := te.vars["idx"]; !has {
		// a counting loop (for i := 0; ...; i++): idx names its counter as well, so that a loop contract
		// survives the rewriting of a range loop into an index loop and back (idx = elements already done)
		var cand []string
		for _, ins := range l.header.Instrs {
			phi, ok := ins.(*ssa.Phi)
			if !ok {
				break
			}
			if isCounterPhi(phi) {
				cand = append(cand, env[phi].t)
			}
		}
		if len(cand) == 1 && cand[0] != "" {
			te.vars["idx"] = TV{t: cand[0], sort: sortInt}
		}
	}
	if own := l.foreign; own != nil {
		var locals []string
		for k := range te.vars {
			if !foreignBound[k] {
				locals = append(locals, k)
			}
		}
		sort.Strings(locals)
		if l.ann != nil {
			te.bindByElimination(l.ann.Invs, locals)
		}
		if own.contract != nil {
			te.withState(own.entry).bindLets(own.contract, true)
		}
		return te
	}
	if fr.contract != nil {
		// letold names denote values of the function's entry state
		te.withState(fr.entry).bindLets(fr.contract, true)
	}
	return te
}

// isCounterPhi: an integer loop variable that starts at 0 and is only ever incremented by 1.
func isCounterPhi(phi *ssa.Phi) bool {
	if b, ok := phi.Type().Underlying().(*types.Basic); !ok || b.Info()&types.IsInteger == 0 {
		return false
	}
	sawZero, sawInc := false, false
	for _, e := range phi.Edges {
		switch x := e.(type) {
		case *ssa.Const:
			if x.Value == nil || x.Value.ExactString() != "0" {
				return false
			}
			sawZero = true
		case *ssa.BinOp:
			if x.Op != token.ADD || x.X != ssa.Value(phi) {
				return false
			}
			c, ok := x.Y.(*ssa.Const)
			if !ok || c.Value == nil || c.Value.ExactString() != "1" {
				return false
			}
			sawInc = true
		default:
			return false
		}
	}
	return sawZero && sawInc
}

func isRangeIndexPhi(phi *ssa.Phi) bool {
	if phi.Comment != "rangeindex" {
		return false
	}
	for _, e := range phi.Edges {
		switch x := e.(type) {
		case *ssa.Const:
			if x.Value == nil || x.Value.ExactString() != "-1" {
				return false
			}
		case *ssa.BinOp:
			if x.Op != token.ADD || x.X != ssa.Value(phi) {
				return false
			}
			c, ok := x.Y.(*ssa.Const)
			if !ok || c.Value == nil || c.Value.ExactString() != "1" {
				return false
			}
		default:
			return false
		}
	}
	return true
}

// cutLoopHeader: assert invariants on entry, havoc the loop's modified state, assume invariants.
func (fr *frame) cutLoopHeader(l *loopInfo, cur *State, env map[ssa.Value]Val, reach string) string {
	vc := fr.vc
	pos := vc.pos(l.header.Instrs[0].Pos())
	fr.adoptFor(l)
	var invs []*Clause
	if l.ann != nil {
		for _, c := range l.ann.Invs {
			if c.inSlice(vc.slice) {
				invs = append(invs, c)
			}
		}
	}
	// 1. loop-init
	te := fr.invEnv(l, cur, env)
	for _, c := range invs {
		vc.oblige("loop-init", fmt.Sprintf("%s#loop-init:loop%d", shortFn(fr.fn), l.ordinal), pos, "invariant "+c.Text+" ["+c.Src+"]", reach, te.goalFormula(c.E), c.Tags)
	}
	// 2. modified set by a speculative pass over the loop body
	nAssert, nObl := len(vc.asserts), len(vc.obls)
	notes := len(vc.notes)
	nDecl := len(vc.decls)
	nLog := len(vc.writeLog)
	vc.quiet++
	var order []nkey
	for _, n := range fr.order {
		if l.blocks[fr.fn.Blocks[n.idx]] {
			order = append(order, n)
		}
	}
	envCopy := make(map[ssa.Value]Val, len(env))
	for k, v := range env {
		envCopy[k] = v
	}
	rc := &runCtx{region: l.blocks, header: l.header}
	fr.run(order, map[nkey][]edgePayload{{l.header.Index, 0}: {{cond: "true", st: cur.clone(), env: envCopy}}}, rc)
	vc.quiet--
	specLog := append([]writeRec{}, vc.writeLog[nLog:]...)
	vc.writeLog = vc.writeLog[:nLog]
	vc.asserts = vc.asserts[:nAssert]
	vc.obls = vc.obls[:nObl]
	if len(vc.notes) > notes {
		vc.notes = vc.notes[:notes]
	}
	modH := map[string]bool{}
	modG := map[string]bool{}
	for _, bs := range rc.backStates {
		for k, t := range bs.heaps {
			if cur.heaps[k] != t {
				if _, had := cur.heaps[k]; !had && t == k+"~0" {
					continue
				}
				modH[k] = true
			}
		}
		for k, t := range bs.ghosts {
			if cur.ghosts[k] != t {
				if _, had := cur.ghosts[k]; !had {
					if t == "G!"+sanitize(k)+"~0" {
						continue
					}
				}
				modG[k] = true
			}
		}
	}
	// 3. havoc
	for _, ins := range l.header.Instrs {
		phi, ok := ins.(*ssa.Phi)
		if !ok {
			break
		}
		hv := vc.havocVal(phi.Type(), "loop_"+phi.Comment, "")
		env[phi] = hv
		if isCounterPhi(phi) {
			// structural facts of a counting loop `for i := 0; i < X; i++` with X fixed during the loop: the
			// counter is only incremented after the test i < X succeeded, so 0 <= i and (i == 0 or i <= X)
			vc.assume("true", "(>= "+hv.t+" 0)")
			for _, hi := range l.header.Instrs {
				cmp, ok := hi.(*ssa.BinOp)
				if !ok || cmp.Op != token.LSS || cmp.X != ssa.Value(phi) {
					continue
				}
				usedAsExit := false
				if ifi, ok := l.header.Instrs[len(l.header.Instrs)-1].(*ssa.If); ok && ifi.Cond == ssa.Value(cmp) && len(l.header.Succs) == 2 && l.blocks[l.header.Succs[0]] && !l.blocks[l.header.Succs[1]] {
					usedAsExit = true
				}
				if !usedAsExit {
					continue
				}
				bound := ""
				outside := func(v ssa.Value) bool {
					switch d := v.(type) {
					case *ssa.Parameter, *ssa.Const, *ssa.FreeVar:
						return true
					case ssa.Instruction:
						return d.Block() != nil && !l.blocks[d.Block()]
					}
					return false
				}
				if outside(cmp.Y) {
					if c, isC := cmp.Y.(*ssa.Const); isC {
						bound = vc.constVal(c).t
					} else if lv, ok := env[cmp.Y]; ok && lv.t != "" {
						bound = lv.t
					}
				} else if call, isCall := cmp.Y.(*ssa.Call); isCall {
					if b, isB := call.Call.Value.(*ssa.Builtin); isB && b.Name() == "len" && len(call.Call.Args) == 1 && outside(call.Call.Args[0]) {
						if av, ok := env[call.Call.Args[0]]; ok && av.t != "" {
							switch types.Unalias(call.Call.Args[0].Type()).Underlying().(type) {
							case *types.Slice:
								bound = "(slen " + av.t + ")"
							case *types.Basic:
								bound = "(str.len " + av.t + ")"
							}
						}
					}
				}
				if bound != "" {
					vc.assume("true", "(or (= "+hv.t+" 0) (<= "+hv.t+" "+bound+"))")
				}
			}
		}
		if isRangeIndexPhi(phi) {
			// the element index of this iteration, in the form the body's index instruction will have it:
			// quantified invariants assumed below are instantiated at it (see noteIndexTerm)
			vc.noteIndexTerm(wrapInt("(+ "+hv.t+" 1)", phi.Type()))
			// structural facts of the range-over-slice lowering: -1 <= index, index+1 <= len
			vc.assume("true", "(>= "+hv.t+" (- 1))")
			for _, hi := range l.header.Instrs {
				if cmp, ok := hi.(*ssa.BinOp); ok && cmp.Op == token.LSS {
					if add, ok := cmp.X.(*ssa.BinOp); ok && add.Op == token.ADD && add.X == ssa.Value(phi) {
						if lv, ok := env[cmp.Y]; ok {
							vc.assume("true", "(<= (+ "+hv.t+" 1) "+lv.t+")")
						} else if c, ok := cmp.Y.(*ssa.Const); ok {
							vc.assume("true", "(<= (+ "+hv.t+" 1) "+vc.constVal(c).t+")")
						}
					}
				}
			}
		}
	}
	var hk []string
	for k := range modH {
		hk = append(hk, k)
	}
	sort.Strings(hk)
	for _, k := range hk {
		pre := vc.heapGet(cur, k, vc.heapSorts[k])
		// which pre-existing objects may the loop write? (from the speculative pass's write log)
		whole := false
		var refs []string
		seen := map[string]bool{}
		for _, w := range specLog {
			if w.heap != k {
				continue
			}
			if w.ref == "*" {
				whole = true
				break
			}
			if idx, isAlloc := vc.allocNames[w.ref]; isAlloc && idx >= nDecl {
				continue // object allocated inside the loop
			}
			if !vc.preLoopTerm(w.ref, nDecl) {
				whole = true
				break
			}
			if !seen[w.ref] {
				seen[w.ref] = true
				refs = append(refs, w.ref)
			}
		}
		vc.heapHavoc(cur, k)
		if !whole {
			nw := cur.heaps[k]
			conds := []string{"(> r!f 0)", "(<= r!f " + cur.alloc + ")"}
			for _, r := range refs {
				conds = append(conds, "(not (= r!f "+r+"))")
			}
			vc.assume("true", "(forall ((r!f Int)) (! (=> (and "+strings.Join(conds, " ")+") (= (select "+nw+" r!f) (select "+pre+" r!f))) :pattern ((select "+nw+" r!f))))")
		}
	}
	var gk []string
	for k := range modG {
		gk = append(gk, k)
	}
	sort.Strings(gk)
	for _, k := range gk {
		vc.ghostHavoc(cur, k)
	}
	na := vc.fresh("alloc_loop", sortInt)
	vc.assume("true", "(>= "+na+" "+cur.alloc+")")
	cur.alloc = na
	vc.trackAlloc(na)
	// 4. assume invariants
	te2 := fr.invEnv(l, cur, env)
	for _, c := range invs {
		vc.assume(reach, te2.formula(c.E))
	}
	return reach
}

func (fr *frame) loopStep(l *loopInfo, st *State, env map[ssa.Value]Val, cond string) {
	vc := fr.vc
	fr.schemaC03(cond, nil, vc.pos(l.header.Instrs[0].Pos()), true)
	if l.ann == nil {
		return
	}
	pos := vc.pos(l.header.Instrs[0].Pos())
	te := fr.invEnv(l, st, env)
	for _, c := range l.ann.Invs {
		if !c.inSlice(vc.slice) {
			continue
		}
		vc.oblige("loop-step", fmt.Sprintf("%s#loop-step:loop%d", shortFn(fr.fn), l.ordinal), pos, "invariant "+c.Text+" ["+c.Src+"]", cond, te.goalFormula(c.E), c.Tags)
	}
}

// preLoopTerm: does term mention only symbols declared before position nDecl?
func (vc *VC) preLoopTerm(term string, nDecl int) bool {
	for _, tok := range strings.FieldsFunc(term, func(r rune) bool { return r == '(' || r == ')' || r == ' ' }) {
		if idx, ok := vc.declIndex[tok]; ok && idx >= nDecl {
			return false
		}
	}
	return true
}

// schemaC03: error monotonicity. At a return (or at the back edge of a cut loop) every error a callee
// of this frame has returned must have become this function's error (or an unsuccessful
// acknowledgement); at a back edge the iteration that saw an error must not continue.
func (fr *frame) schemaC03(reach string, rets []Val, pos string, backEdge bool) {
	vc := fr.vc
	if !vc.slice["C03"] || fr.exemptC03 || vc.quiet > 0 || len(fr.errCalls) == 0 {
		return
	}
	sig := fr.fn.Signature
	concl := "false"
	what := "is not ignored"
	if !backEdge && errResultIndex(sig) < 0 {
		// functions without an error result turn errors into other values (bool verdicts, defaults,
		// acknowledgements); only the acknowledgement constructors are checked
		rt := ""
		if sig.Results().Len() == 1 {
			rt = sig.Results().At(0).Type().String()
		}
		if !strings.HasSuffix(rt, "exported.Acknowledgement") && !strings.HasSuffix(rt, "04-channel/types.Acknowledgement") {
			return
		}
	}
	if !backEdge {
		if ei := errResultIndex(sig); ei >= 0 && ei < len(rets) {
			concl = "(not (= (itag " + rets[ei].t + ") 0))"
			what = "becomes this function's error"
		} else if sig.Results().Len() == 1 && strings.HasSuffix(sig.Results().At(0).Type().String(), "exported.Acknowledgement") && len(rets) == 1 {
			if _, ok := vc.eng.specs.funSigs["ackSuccess"]; ok {
				concl = "(not (ackSuccess " + rets[0].t + "))"
				what = "becomes an unsuccessful acknowledgement"
			}
		} else if sig.Results().Len() == 1 && strings.HasSuffix(sig.Results().At(0).Type().String(), "04-channel/types.Acknowledgement") && len(rets) == 1 {
			// the acknowledgement struct itself: its response must be the error variant
			if si := vc.eng.types.structInfoOf(sig.Results().At(0).Type()); si != nil {
				for i, f := range si.fields {
					if f.name == "Response" {
						for k, c := range vc.eng.types.tags {
							if strings.HasSuffix(k, "04-channel/types.Acknowledgement_Error") && strings.HasPrefix(k, "*") {
								concl = "(= (itag (" + accessor(si, i) + " " + rets[0].t + ")) " + c + ")"
								what = "becomes an error acknowledgement"
							}
						}
					}
				}
			}
		}
	} else {
		if errResultIndex(sig) < 0 {
			return
		}
		what = "ends the loop"
	}
	for _, c := range fr.errCalls {
		vc.oblige("schema", fmt.Sprintf("%s#schema[C03]:err(%s)", shortFn(fr.fn), c.callee), pos,
			"an error returned by "+c.callee+" (called at "+c.pos+") "+what, and(and(reach, c.reach), "(not (= (itag "+c.err+") 0))"), concl, []string{"C03"})
	}
}
