package main

// Mapping of Go types to SMT sorts, zero values, type tags.

import (
	"fmt"
	"go/types"
	"sort"
	"strings"
)

const repoMod = "github.com/noble-assets/orbiter/v2"

// External struct types that are modelled transparently (field by field).
// Everything else outside the repository is an opaque (uninterpreted) sort.
var transparentExternal = map[string]bool{
	"github.com/cosmos/cosmos-sdk/types.Coin":                                          true,
	"github.com/cosmos/ibc-go/v8/modules/core/04-channel/types.Packet":                 true,
	"github.com/cosmos/ibc-go/v8/modules/core/02-client/types.Height":                  true,
	"github.com/cosmos/ibc-go/v8/modules/core/04-channel/types.Acknowledgement":        true,
	"github.com/cosmos/ibc-go/v8/modules/core/04-channel/types.Acknowledgement_Error":  true,
	"github.com/cosmos/ibc-go/v8/modules/core/04-channel/types.Acknowledgement_Result": true,
	"github.com/cosmos/ibc-go/v8/modules/apps/transfer/types.FungibleTokenPacketData":  true,
	"github.com/cosmos/ibc-go/v8/modules/apps/transfer/types.DenomTrace":               true,
	"github.com/circlefin/noble-cctp/x/cctp/types.MsgDepositForBurn":                   true,
	"github.com/circlefin/noble-cctp/x/cctp/types.MsgDepositForBurnWithCaller":         true,
	"github.com/circlefin/noble-cctp/x/cctp/types.MsgReplaceDepositForBurn":            true,
	"github.com/bcp-innovations/hyperlane-cosmos/x/warp/types.MsgRemoteTransfer":       true,
	"github.com/bcp-innovations/hyperlane-cosmos/x/warp/types.QueryTokenRequest":       true,
	"github.com/bcp-innovations/hyperlane-cosmos/x/warp/types.QueryTokenResponse":      true,
	"github.com/bcp-innovations/hyperlane-cosmos/x/warp/types.WrappedHypToken":         true,
	"github.com/cosmos/cosmos-sdk/x/bank/types.MsgSend":                                true,
	"github.com/cosmos/cosmos-sdk/codec/types.Any":                                     true,
	"github.com/cosmos/cosmos-sdk/types/query.PageRequest":                             true,
	"github.com/cosmos/cosmos-sdk/types/query.PageResponse":                            true,
}

const (
	sortInt    = "Int"
	sortBool   = "Bool"
	sortString = "String"
	sortMInt   = "MInt"
	sortIface  = "Iface"
	sortSlice  = "Slice"
	sortAddr   = "Addr"
)

type structInfo struct {
	sort   string
	named  *types.Named
	st     *types.Struct
	fields []fieldInfo
	opaque bool
}

type fieldInfo struct {
	name string
	typ  types.Type
	sort string
}

type TypeReg struct {
	structs    map[string]*structInfo // by sort name
	order      []string               // declaration order of datatype sorts
	opaque     map[string]bool        // uninterpreted sorts
	tags       map[string]string      // type string -> tag constant name
	tagTypes   map[string]types.Type
	boxSorts   map[string]bool
	arraySorts map[string]bool
	zeroConsts map[string]string
}

func newTypeReg() *TypeReg {
	return &TypeReg{
		structs:    map[string]*structInfo{},
		opaque:     map[string]bool{},
		tags:       map[string]string{},
		tagTypes:   map[string]types.Type{},
		boxSorts:   map[string]bool{},
		zeroConsts: map[string]string{},
	}
}

func sanitize(s string) string {
	var b strings.Builder
	for _, r := range s {
		switch {
		case r >= 'a' && r <= 'z', r >= 'A' && r <= 'Z', r >= '0' && r <= '9', r == '_':
			b.WriteRune(r)
		case r == '.', r == '/':
			b.WriteRune('_')
		case r == '*':
			b.WriteString("P_")
		case r == '[' || r == ']' || r == ',' || r == ' ':
			b.WriteRune('_')
		default:
			b.WriteRune('_')
		}
	}
	return b.String()
}

func shortTypeName(n *types.Named) string {
	obj := n.Obj()
	pk := ""
	if obj.Pkg() != nil {
		pk = obj.Pkg().Path()
		pk = strings.TrimPrefix(pk, repoMod+"/")
		pk = strings.TrimPrefix(pk, "github.com/")
	}
	s := pk + "." + obj.Name()
	if ta := n.TypeArgs(); ta != nil && ta.Len() > 0 {
		var parts []string
		for i := 0; i < ta.Len(); i++ {
			parts = append(parts, types.TypeString(ta.At(i), func(p *types.Package) string { return p.Name() }))
		}
		s += "[" + strings.Join(parts, ",") + "]"
	}
	return "T_" + sanitize(s)
}

func qualifiedName(n *types.Named) string {
	obj := n.Obj()
	if obj.Pkg() == nil {
		return obj.Name()
	}
	return obj.Pkg().Path() + "." + obj.Name()
}

func inRepo(pkg *types.Package) bool {
	return pkg != nil && strings.HasPrefix(pkg.Path(), repoMod)
}

func isMathInt(t types.Type) bool {
	n, ok := types.Unalias(t).(*types.Named)
	return ok && qualifiedName(n) == "cosmossdk.io/math.Int"
}

// collections containers are modelled by their identity (an Int); their contents are ghost state.
func isCollection(t types.Type) bool {
	n, ok := types.Unalias(t).(*types.Named)
	if !ok {
		return false
	}
	switch qualifiedName(n) {
	case "cosmossdk.io/collections.KeySet", "cosmossdk.io/collections.Item", "cosmossdk.io/collections.Map",
		"cosmossdk.io/collections.IndexedMap", "cosmossdk.io/collections.Sequence", "cosmossdk.io/collections/indexes.Multi",
		"cosmossdk.io/collections.KeySetIterator", "cosmossdk.io/collections.Iterator":
		return true
	}
	return false
}

// collections.Pair/Triple/Quad hold pointers to their components; they are modelled as tuples of values.
func isTupleKey(t types.Type) bool {
	n, ok := types.Unalias(t).(*types.Named)
	if !ok {
		return false
	}
	switch qualifiedName(n) {
	case "cosmossdk.io/collections.Pair", "cosmossdk.io/collections.Triple", "cosmossdk.io/collections.Quad":
		return true
	}
	return false
}

func isAccAddress(t types.Type) bool {
	n, ok := types.Unalias(t).(*types.Named)
	return ok && qualifiedName(n) == "github.com/cosmos/cosmos-sdk/types.AccAddress"
}

// sortOf returns the SMT sort used for values of Go type t.
func (r *TypeReg) sortOf(t types.Type) string {
	t = types.Unalias(t)
	if isMathInt(t) {
		return sortMInt
	}
	if isAccAddress(t) {
		return sortAddr
	}
	if isCollection(t) {
		return sortInt
	}
	switch u := t.(type) {
	case *types.Named:
		if st, ok := u.Underlying().(*types.Struct); ok {
			return r.structSort(u, st)
		}
		return r.sortOf(u.Underlying())
	case *types.Basic:
		switch {
		case u.Info()&types.IsBoolean != 0:
			return sortBool
		case u.Info()&types.IsInteger != 0:
			return sortInt
		case u.Info()&types.IsString != 0:
			return sortString
		case u.Kind() == types.UnsafePointer:
			return sortInt
		case u.Kind() == types.UntypedNil:
			return sortInt
		case u.Info()&types.IsFloat != 0:
			return "Real"
		}
		return r.opaqueSort("B_" + sanitize(u.Name()))
	case *types.Pointer:
		return sortInt
	case *types.Slice:
		return sortSlice
	case *types.Interface:
		return sortIface
	case *types.Map:
		return sortInt
	case *types.Signature:
		return sortInt
	case *types.Chan:
		return sortInt
	case *types.Array:
		return "(Array Int " + r.sortOf(u.Elem()) + ")"
	case *types.Struct:
		// anonymous struct
		return r.anonStructSort(u)
	case *types.Tuple:
		return "TUPLE"
	case *types.TypeParam:
		return r.opaqueSort("TP_" + sanitize(u.String()))
	}
	return r.opaqueSort("U_" + sanitize(t.String()))
}

func (r *TypeReg) opaqueSort(name string) string {
	r.opaque[name] = true
	return name
}

func (r *TypeReg) isTransparent(n *types.Named) bool {
	if inRepo(n.Obj().Pkg()) || isTupleKey(n) {
		return true
	}
	return transparentExternal[qualifiedName(n)]
}

func (r *TypeReg) structSort(n *types.Named, st *types.Struct) string {
	name := shortTypeName(n)
	if _, ok := r.structs[name]; ok {
		return name
	}
	if r.opaque[name] {
		return name
	}
	if !r.isTransparent(n) {
		r.opaque[name] = true
		return name
	}
	si := &structInfo{sort: name, named: n, st: st}
	r.structs[name] = si // register first (recursion via pointers is Int anyway)
	for i := 0; i < st.NumFields(); i++ {
		f := st.Field(i)
		ft := f.Type()
		if isTupleKey(n) {
			if p, ok := ft.(*types.Pointer); ok {
				ft = p.Elem() // components by value
			}
		}
		si.fields = append(si.fields, fieldInfo{name: f.Name(), typ: ft, sort: r.sortOf(ft)})
	}
	r.order = append(r.order, name)
	return name
}

func (r *TypeReg) anonStructSort(st *types.Struct) string {
	name := "T_anon_" + sanitize(st.String())
	if len(name) > 80 {
		name = name[:80]
	}
	if _, ok := r.structs[name]; ok {
		return name
	}
	si := &structInfo{sort: name, st: st}
	r.structs[name] = si
	for i := 0; i < st.NumFields(); i++ {
		f := st.Field(i)
		si.fields = append(si.fields, fieldInfo{name: f.Name(), typ: f.Type(), sort: r.sortOf(f.Type())})
	}
	r.order = append(r.order, name)
	return name
}

// structInfoOf returns struct info for a transparent struct type (named or anonymous), or nil.
func (r *TypeReg) structInfoOf(t types.Type) *structInfo {
	t = types.Unalias(t)
	if isMathInt(t) || isAccAddress(t) || isCollection(t) {
		return nil
	}
	switch u := t.(type) {
	case *types.Named:
		if st, ok := u.Underlying().(*types.Struct); ok {
			s := r.structSort(u, st)
			return r.structs[s]
		}
	case *types.Struct:
		s := r.anonStructSort(u)
		return r.structs[s]
	}
	return nil
}

func accessor(si *structInfo, i int) string {
	return si.sort + "!" + si.fields[i].name
}

func ctor(si *structInfo) string { return "mk!" + si.sort }

// datatype declarations in dependency order
func (r *TypeReg) declarations() string {
	var b strings.Builder
	var op []string
	for s := range r.opaque {
		op = append(op, s)
	}
	sort.Strings(op)
	for _, s := range op {
		fmt.Fprintf(&b, "(declare-sort %s 0)\n", s)
	}
	// Datatypes may reference each other by value; emit in an order where dependencies come first.
	emitted := map[string]bool{}
	var emit func(name string)
	emit = func(name string) {
		if emitted[name] {
			return
		}
		emitted[name] = true
		si := r.structs[name]
		for _, f := range si.fields {
			for dep := range r.structs {
				if dep != name && strings.Contains(f.sort, dep) && sortMentions(f.sort, dep) {
					emit(dep)
				}
			}
		}
		fmt.Fprintf(&b, "(declare-datatype %s ((%s", name, ctor(si))
		for i, f := range si.fields {
			fmt.Fprintf(&b, " (%s %s)", accessor(si, i), f.sort)
		}
		if len(si.fields) == 0 {
			// nullary constructor
		}
		b.WriteString(")))\n")
	}
	names := append([]string{}, r.order...)
	for _, n := range names {
		emit(n)
	}
	var zs []string
	for z := range r.zeroConsts {
		zs = append(zs, z)
	}
	sort.Strings(zs)
	for _, z := range zs {
		fmt.Fprintf(&b, "(declare-const %s %s)\n", z, r.zeroConsts[z])
	}
	return b.String()
}

func sortMentions(sortExpr, name string) bool {
	// token match
	toks := strings.FieldsFunc(sortExpr, func(r rune) bool { return r == '(' || r == ')' || r == ' ' })
	for _, t := range toks {
		if t == name {
			return true
		}
	}
	return false
}

// zero value of a Go type as SMT term
func (r *TypeReg) zero(t types.Type) string {
	t = types.Unalias(t)
	if isMathInt(t) {
		return "(mkMInt true 0)"
	}
	if isAccAddress(t) {
		return "addr!nil"
	}
	s := r.sortOf(t)
	switch s {
	case sortInt:
		return "0"
	case sortBool:
		return "false"
	case sortString:
		return "\"\""
	case sortIface:
		return "(mkIface 0 0)"
	case sortSlice:
		return "(mkSlice 0 0 0)"
	case "Real":
		return "0.0"
	}
	if si := r.structInfoOf(t); si != nil {
		if len(si.fields) == 0 {
			return ctor(si)
		}
		var parts []string
		for _, f := range si.fields {
			parts = append(parts, r.zero(f.typ))
		}
		return "(" + ctor(si) + " " + strings.Join(parts, " ") + ")"
	}
	if _, ok := t.Underlying().(*types.Array); ok {
		r.zeroConsts["zeroarrv!"+sanitize(s)] = s
		return "zeroarrv!" + sanitize(s)
	}
	// opaque: a designated zero constant
	r.zeroConsts["zero!"+s] = s
	return "zero!" + s
}

// tagOf returns the tag constant for a concrete dynamic type.
func (r *TypeReg) tagOf(t types.Type) string {
	key := types.TypeString(types.Unalias(t), nil)
	if c, ok := r.tags[key]; ok {
		return c
	}
	c := "TAG!" + sanitize(strings.TrimPrefix(strings.ReplaceAll(key, repoMod+"/", ""), "github.com/"))
	// ensure unique
	base := c
	for i := 2; ; i++ {
		dup := false
		for _, v := range r.tags {
			if v == c {
				dup = true
			}
		}
		if !dup {
			break
		}
		c = fmt.Sprintf("%s_%d", base, i)
	}
	r.tags[key] = c
	r.tagTypes[key] = t
	return c
}

func intRange(t types.Type) (lo, hi string, ok bool) {
	b, isb := types.Unalias(t).Underlying().(*types.Basic)
	if !isb || b.Info()&types.IsInteger == 0 {
		return "", "", false
	}
	switch b.Kind() {
	case types.Int8:
		return "(- 128)", "127", true
	case types.Int16:
		return "(- 32768)", "32767", true
	case types.Int32:
		return "(- 2147483648)", "2147483647", true
	case types.Int, types.Int64:
		return "(- 9223372036854775808)", "9223372036854775807", true
	case types.Uint8:
		return "0", "255", true
	case types.Uint16:
		return "0", "65535", true
	case types.Uint32:
		return "0", "4294967295", true
	case types.Uint, types.Uint64, types.Uintptr:
		return "0", "18446744073709551615", true
	case types.UntypedInt, types.UntypedRune:
		return "", "", false
	}
	return "", "", false
}

func intBits(t types.Type) (bits int, signed bool, ok bool) {
	b, isb := types.Unalias(t).Underlying().(*types.Basic)
	if !isb || b.Info()&types.IsInteger == 0 {
		return 0, false, false
	}
	switch b.Kind() {
	case types.Int8:
		return 8, true, true
	case types.Int16:
		return 16, true, true
	case types.Int32:
		return 32, true, true
	case types.Int, types.Int64:
		return 64, true, true
	case types.Uint8:
		return 8, false, true
	case types.Uint16:
		return 16, false, true
	case types.Uint32:
		return 32, false, true
	case types.Uint, types.Uint64, types.Uintptr:
		return 64, false, true
	}
	return 0, false, false
}

func pow2(n int) string {
	// decimal string of 2^n
	digits := []int{1}
	for i := 0; i < n; i++ {
		carry := 0
		for j := 0; j < len(digits); j++ {
			v := digits[j]*2 + carry
			digits[j] = v % 10
			carry = v / 10
		}
		if carry > 0 {
			digits = append(digits, carry)
		}
	}
	var b strings.Builder
	for i := len(digits) - 1; i >= 0; i-- {
		b.WriteByte(byte('0' + digits[i]))
	}
	return b.String()
}

// wrap an integer term into the range of type t (Go wrap-around semantics).
func wrapInt(term string, t types.Type) string {
	bits, signed, ok := intBits(t)
	if !ok {
		return term
	}
	m := pow2(bits)
	if !signed {
		return "(mod " + term + " " + m + ")"
	}
	h := pow2(bits - 1)
	return "(- (mod (+ " + term + " " + h + ") " + m + ") " + h + ")"
}

func smtString(s string) string {
	var b strings.Builder
	b.WriteByte('"')
	for i := 0; i < len(s); i++ {
		c := s[i]
		switch {
		case c == '"':
			b.WriteString("\"\"")
		case c == '\\':
			b.WriteString("\\u{5c}")
		case c >= 32 && c < 127:
			b.WriteByte(c)
		default:
			fmt.Fprintf(&b, "\\u{%x}", c)
		}
	}
	b.WriteByte('"')
	return b.String()
}

func smtInt(v string) string {
	if strings.HasPrefix(v, "-") {
		return "(- " + v[1:] + ")"
	}
	return v
}

// sortsKnown: are all T_* sort names mentioned in an SMT line registered?
func (r *TypeReg) sortsKnown(line string) bool {
	if !strings.Contains(line, "T_") {
		return true
	}
	for _, tok := range strings.FieldsFunc(line, func(c rune) bool { return c == '(' || c == ')' || c == ' ' }) {
		if strings.HasPrefix(tok, "T_") && !strings.Contains(tok, "!") {
			if _, ok := r.structs[tok]; !ok && !r.opaque[tok] {
				return false
			}
		}
	}
	return true
}

// nilType stands in for a missing Go type (a contract expression that failed to resolve): every type
// switch on it falls through to the "unsupported" arm instead of dereferencing nil.
var nilType types.Type = types.Typ[types.Invalid]

func unaliasNil(t types.Type) types.Type {
	if t == nil {
		return nilType
	}
	return types.Unalias(t)
}

func underNil(t types.Type) types.Type {
	if t == nil {
		return nilType
	}
	return types.Unalias(t).Underlying()
}

// opaqueField: field fi of a struct type that the registry keeps opaque (a collection of the SDK): the heap
// it lives in, the sort and the type of its value.
func (r *TypeReg) opaqueField(t types.Type, fi int) (key, vsort string, ftyp types.Type, ok bool) {
	st, isStruct := unaliasNil(t).Underlying().(*types.Struct)
	if !isStruct || fi < 0 || fi >= st.NumFields() {
		return "", "", nil, false
	}
	f := st.Field(fi)
	name := "opaque"
	if n, isNamed := unaliasNil(t).(*types.Named); isNamed {
		name = n.Obj().Name()
	}
	vsort = r.sortOf(f.Type())
	if vsort == "" {
		return "", "", nil, false
	}
	return "O!" + sanitize(name) + "!" + f.Name() + "!" + sanitize(vsort), vsort, f.Type(), true
}
