package main

// A-ERR as an effect analysis: the sentinel error ErrNoOrbiterPacket can only come out of code that
// (transitively) mentions it. Error results of any other callee are assumed not to be, or wrap, it.

import (
	"go/types"
	"strings"

	"golang.org/x/tools/go/ssa"
)

const sentinelGlobal = "github.com/noble-assets/orbiter/v2/types/core.ErrNoOrbiterPacket"

func (e *Engine) mayReturnSentinel(fn *ssa.Function) bool {
	if e.sentinelSet == nil {
		e.sentinelSet = map[*ssa.Function]bool{}
		direct := map[*ssa.Function]bool{}
		byName := map[string][]*ssa.Function{}
		for _, f := range e.allFns {
			if f.Pkg != nil && inRepo(f.Pkg.Pkg) || f.Origin() != nil && f.Origin().Pkg != nil && inRepo(f.Origin().Pkg.Pkg) {
				byName[f.Name()] = append(byName[f.Name()], f)
			}
			for _, b := range f.Blocks {
				for _, ins := range b.Instrs {
					for _, op := range ins.Operands(nil) {
						if g, ok := (*op).(*ssa.Global); ok && g.String() == sentinelGlobal {
							direct[f] = true
						}
					}
				}
			}
		}
		// propagate to callers until fixpoint
		for f := range direct {
			e.sentinelSet[f] = true
		}
		changed := true
		for changed {
			changed = false
			for _, f := range e.allFns {
				if e.sentinelSet[f] || len(f.Blocks) == 0 {
					continue
				}
				for _, b := range f.Blocks {
					for _, ins := range b.Instrs {
						ci, ok := ins.(ssa.CallInstruction)
						if !ok {
							continue
						}
						c := ci.Common()
						var callees []*ssa.Function
						if sc := c.StaticCallee(); sc != nil {
							callees = append(callees, sc)
						} else if c.IsInvoke() {
							callees = append(callees, byName[c.Method.Name()]...)
						}
						for _, cal := range callees {
							if e.sentinelSet[cal] {
								e.sentinelSet[f] = true
								changed = true
							}
						}
					}
				}
			}
		}
	}
	return e.sentinelSet[fn]
}

// assumeNotSentinel adds the A-ERR fact for the error-typed results of a call.
func (vc *VC) assumeNotSentinel(res Val, sig *types.Signature, alive string) {
	if _, ok := vc.eng.specs.funSigs["rootErr"]; !ok {
		return
	}
	var g *ssa.Global
	for _, sp := range vc.eng.ssaPkgs {
		if sp != nil && strings.HasSuffix(sentinelGlobal, sp.Pkg.Path()+".ErrNoOrbiterPacket") {
			g, _ = sp.Members["ErrNoOrbiterPacket"].(*ssa.Global)
		}
	}
	if g == nil {
		return
	}
	gv := vc.globalValue(g)
	errT := types.Universe.Lookup("error").Type()
	n := sig.Results().Len()
	for i := 0; i < n; i++ {
		if !types.Identical(sig.Results().At(i).Type(), errT) {
			continue
		}
		var t string
		if n == 1 {
			t = res.t
		} else if i < len(res.tup) {
			t = res.tup[i].t
		}
		if t != "" {
			vc.assume(alive, "(not (= (rootErr "+t+") "+gv+"))")
		}
	}
}
