package main

// Congruence handles for macro expansions.
//
// A macro call is expanded (call-by-value) and its result named m_<macro>!k by a definition. Two
// expansions of the same macro with equal arguments in states that agree on everything the body reads
// are equal, but a solver sees that only after unfolding both definitions, which for the ledger closed
// forms means wading through nested conditionals and arithmetic. The handle makes the functional
// dependency explicit:  m_<macro>!k = MU!<macro>!<sig>(arguments, state components the body read).
// MU!... is a fresh uninterpreted function, so the equation only says "the value is a function of
// these inputs", which is true of the expansion by construction (the body is translated from nothing
// but its arguments, the heap/ghost versions it reads, the allocation counter if it reads it, enclosing
// variables it mentions, and constants). The definition itself stays asserted; nothing is hidden.

import (
	"crypto/sha1"
	"fmt"
	"strings"
)

func (vc *VC) macroHandle(name string, res TV, args []TV, reads []readRec) {
	if res.sort == "" || strings.Contains(res.t, "!q") {
		return
	}
	var terms, sorts []string
	for _, a := range args {
		if a.ip != nil || a.sort == "" || a.isNil || strings.Contains(a.t, "!q") {
			return
		}
		terms = append(terms, a.t)
		sorts = append(sorts, a.sort)
	}
	// unique reads
	seen := map[string]bool{}
	var rs []readRec
	for _, r := range reads {
		if r.tag == "!" || r.sort == "" || strings.Contains(r.term, "!q") {
			return
		}
		k := r.tag + "|" + r.term
		if !seen[k] {
			seen[k] = true
			rs = append(rs, r)
		}
	}
	// (first-occurrence order: the translation of a macro body visits its reads in an order fixed by the
	// body, so position i means the same read at every call site)
	var tags []string
	for _, r := range rs {
		terms = append(terms, r.term)
		sorts = append(sorts, r.sort)
		tags = append(tags, r.tag)
	}
	if len(terms) == 0 {
		return
	}
	sig := strings.Join(sorts, ";") + "->" + res.sort + "#" + strings.Join(tags, ";")
	fn := fmt.Sprintf("MU!%s!%x", sanitize(name), sha1.Sum([]byte(sig)))[:len("MU!"+sanitize(name)+"!")+10]
	vc.declareRaw(fn, "(declare-fun "+fn+" ("+strings.Join(sorts, " ")+") "+res.sort+")")
	vc.assumeOnce("(= " + res.t + " (" + fn + " " + strings.Join(terms, " ") + "))")
}
