package main

// Calls: builtins, contracts (modular), inlining, havoc of unknown externals.

import (
	"fmt"
	"go/types"
	"regexp"
	"strconv"
	"strings"

	"golang.org/x/tools/go/ssa"
)

type closureInfo struct {
	fn       *ssa.Function
	bindings []Val
}

var sliceLitRe = regexp.MustCompile(`^\(mkSlice (\S+) 0 (\d+)\)$`)

func (fr *frame) setState(st, from *State) {
	st.heaps = from.heaps
	st.ghosts = from.ghosts
	st.alloc = from.alloc
}

func (fr *frame) execCall(instr ssa.Value, c *ssa.CallCommon, st *State, env map[ssa.Value]Val, alive string) (Val, string) {
	vc := fr.vc
	if !vc.slice["C03"] {
		return fr.execCall0(instr, c, st, env, alive)
	}
	// C03 schema: remember the error result of every fallible call
	name := ""
	var sig *types.Signature
	if c.IsInvoke() {
		name = ifaceShort(c.Value.Type()) + "." + c.Method.Name()
		sig, _ = c.Method.Type().(*types.Signature)
	} else if fn := c.StaticCallee(); fn != nil {
		name = shortFn(fn)
		sig = fn.Signature
	} else {
		sig, _ = c.Value.Type().Underlying().(*types.Signature)
		name = "funcvalue"
	}
	// a declared swallow covers the declaring function and the private helpers inlined into it (the
	// declaration stays valid when the swallowing code is moved into a helper)
	swallowed := false
	for _, sws := range vc.swallowStack {
		for _, sw := range sws {
			if strings.Contains(name, sw) {
				swallowed = true
			}
		}
	}
	if swallowed {
		vc.exemptC03++
	}
	rv, al := fr.execCall0(instr, c, st, env, alive)
	if swallowed {
		vc.exemptC03--
		vc.usedSpecs["declared swallow in "+shortFn(fr.fn)+": error of "+name+" is deliberately not propagated"] = true
		return rv, al
	}
	if sig != nil && !fr.exemptC03 && vc.quiet == 0 {
		if ei := errResultIndex(sig); ei >= 0 {
			var et string
			if sig.Results().Len() == 1 {
				et = rv.t
			} else if ei < len(rv.tup) {
				et = rv.tup[ei].t
			}
			if et != "" {
				fr.errCalls = append(fr.errCalls, errCall{callee: name, err: et, pos: vc.pos(c.Pos()), reach: alive})
			}
		}
	}
	return rv, al
}

func (fr *frame) execCall0(instr ssa.Value, c *ssa.CallCommon, st *State, env map[ssa.Value]Val, alive string) (Val, string) {
	vc := fr.vc
	var args []Val
	var argTypes []types.Type
	pos := vc.pos(c.Pos())

	if b, ok := c.Value.(*ssa.Builtin); ok {
		for _, a := range c.Args {
			args = append(args, fr.operand(a, env))
		}
		return fr.execBuiltin(b, c, args, st, alive, instr), alive
	}

	if c.IsInvoke() {
		recv := fr.operand(c.Value, env)
		args = append(args, recv)
		argTypes = append(argTypes, c.Value.Type())
		for _, a := range c.Args {
			args = append(args, fr.operand(a, env))
			argTypes = append(argTypes, a.Type())
		}
		vc.safetyCheck(fmt.Sprintf("%s#safety:nil-invoke(%s.%s)", shortFn(fr.fn), ifaceShort(c.Value.Type()), c.Method.Name()), pos,
			"method call on nil interface", alive, "(not (= (itag "+recv.t+") 0))", st)
		keys := invokeKeys(c)
		for _, k := range keys {
			if ct := vc.eng.specs.contracts[k]; ct != nil {
				if ct.Havoc {
					fr.panicsUnless(ct, k, c.Method.Type().(*types.Signature), args, argTypes, st, alive, pos, vc.eng.contractPkg(k, c.Method.Pkg()))
					break
				}
				return fr.applyContract(ct, k, c.Method.Type().(*types.Signature), args, argTypes, st, alive, pos, vc.eng.contractPkg(k, c.Method.Pkg()))
			}
		}
		// statically known dynamic type?
		if mi, ok := c.Value.(*ssa.MakeInterface); ok {
			if fn := vc.eng.prog.LookupMethod(mi.X.Type(), c.Method.Pkg(), c.Method.Name()); fn != nil {
				a2 := append([]Val{fr.operand(mi.X, env)}, args[1:]...)
				t2 := append([]types.Type{mi.X.Type()}, argTypes[1:]...)
				return fr.callStatic(fn, a2, t2, st, alive, pos, instr)
			}
		}
		name := keys[0]
		vc.havocked[name+" (interface method without contract: result unconstrained, no effect assumed)"] = true
		return fr.havocCall(c.Method.Type().(*types.Signature), args, argTypes, st, alive, name), alive
	}

	for _, a := range c.Args {
		args = append(args, fr.operand(a, env))
		argTypes = append(argTypes, a.Type())
	}
	fr.curCallArgs = c.Args
	fr.curEnv = env
	if fn := c.StaticCallee(); fn != nil {
		if mc, ok := c.Value.(*ssa.MakeClosure); ok {
			// immediately-invoked closure: bind free variables
			_ = mc
		}
		return fr.callStatic(fn, args, argTypes, st, alive, pos, instr)
	}
	// dynamic call through a function value
	sig, _ := c.Value.Type().Underlying().(*types.Signature)
	vc.havocked["call through function value at "+pos] = true
	if sig == nil {
		return vc.havocVal(instr.Type(), instr.Name(), st.alloc), alive
	}
	return fr.havocCall(sig, args, argTypes, st, alive, "funcvalue"), alive
}

func ifaceShort(t types.Type) string {
	return types.TypeString(types.Unalias(t), func(p *types.Package) string { return p.Name() })
}

// invokeKeys returns candidate contract keys for an interface method call.
func invokeKeys(c *ssa.CallCommon) []string {
	var keys []string
	add := func(t types.Type) {
		if n, ok := types.Unalias(t).(*types.Named); ok {
			q := qualifiedName(n)
			if ta := n.TypeArgs(); ta != nil && ta.Len() > 0 {
				var parts []string
				for i := 0; i < ta.Len(); i++ {
					parts = append(parts, types.TypeString(ta.At(i), func(p *types.Package) string { return p.Name() }))
				}
				keys = append(keys, "("+q+"["+strings.Join(parts, ",")+"])."+c.Method.Name())
			}
			keys = append(keys, "("+q+")."+c.Method.Name())
		}
	}
	add(c.Value.Type())
	if sig, ok := c.Method.Type().(*types.Signature); ok && sig.Recv() != nil {
		add(sig.Recv().Type())
	}
	if len(keys) == 0 {
		keys = append(keys, "("+c.Value.Type().String()+")."+c.Method.Name())
	}
	return keys
}

func (fr *frame) callStatic(fn *ssa.Function, args []Val, argTypes []types.Type, st *State, alive, pos string, instr ssa.Value) (Val, string) {
	vc := fr.vc
	key := fnKey(fn)
	ct := vc.eng.specs.contracts[key]
	if ik := instKey(fn); ik != "" {
		if ict := vc.eng.specs.contracts[ik]; ict != nil {
			ct, key = ict, ik
		} else {
			// pattern contracts: "<normalised key>@~<substring of the type arguments>"
			base := fnKey(fn) + "@~"
			for k, pc := range vc.eng.specs.contracts {
				if strings.HasPrefix(k, base) && strings.Contains(ik[len(fnKey(fn))+1:], k[len(base):]) {
					ct, key = pc, k
				}
			}
		}
	}
	if ct == nil {
		if s := vc.eng.builtinSpec(fr, fn, args, st, alive); s != nil {
			return *s, alive
		}
	}
	hasBody := len(fn.Blocks) > 0 && fn.Pkg != nil && inRepo(fn.Pkg.Pkg)
	if fn.Pkg == nil && len(fn.Blocks) > 0 {
		// instantiated generic or wrapper: in repo if origin is
		if o := fn.Origin(); o != nil && o.Pkg != nil && inRepo(o.Pkg.Pkg) {
			hasBody = true
		}
		if fn.Synthetic != "" && fn.Origin() == nil {
			// bound method wrappers / thunks of in-repo types
			if recv := fn.Signature.Recv(); recv != nil {
				hasBody = true
			}
		}
	}
	if ct != nil && ct.WalkLen != "" {
		if rv, al, ok := fr.execWalk(ct, args, argTypes, st, alive, pos, vc.eng.pkgOfFn(fn), instr); ok {
			vc.usedSpecs[key+" (iterator rule) ["+ct.Src+"]"] = true
			return rv, al
		}
	}
	if ct != nil && (ct.Trusted || !hasBody || vc.contractApplies(ct) || ct.Opaque) {
		rv, al := fr.applyContract(ct, key, fn.Signature, args, argTypes, st, alive, pos, vc.eng.pkgOfFn(fn))
		if !ct.Trusted && !vc.eng.mayReturnSentinel(fn) {
			vc.assumeNotSentinel(rv, fn.Signature, al)
		}
		if ct.Trusted && !hasBody0(fn) && !takesError(fn.Signature) {
			// A-ERR: a function of another module that is not handed an error cannot produce orbiter's sentinel
			vc.assumeNotSentinel(rv, fn.Signature, al)
		}
		return rv, al
	}
	if hasBody {
		if fr.depth >= vc.maxDepth {
			vc.note("inlining depth limit reached at %s; call havocked", shortFn(fn))
		} else if vc.onStack(fn) {
			vc.note("recursive call to %s havocked", shortFn(fn))
		} else {
			vc.inlinedFns[shortFn(fn)] = true
			if ct != nil {
				fr.assumeInvs(ct, fn.Signature, args, argTypes, st, alive, vc.eng.pkgOfFn(fn))
			}
			vc.nextCallPos = pos
			res, out, retReach := vc.execFunc(fn, args, st, alive, fr.depth+1, nil)
			fr.setState(st, out)
			return tupleOf(res, fn.Signature.Results().Len()), retReach
		}
	}
	name := shortFn(fn)
	if hasBody {
		vc.havocked[name+" (in-repo, beyond inlining limit)"] = true
		vc.havocAllState(st)
	} else {
		vc.havocked[name] = true
		if why := stateBranching(fn); why != "" {
			// The ledger and the stores are ghost state of ONE state branch: the one behind the context the
			// entry point was given. A derived context with its own store branch or event manager, or a fresh
			// context, is outside that model - a write made through it is neither visible to nor ordered with
			// the writes the specs record - so a reachable call is an obligation that cannot be discharged.
			vc.oblige("unsupported", fmt.Sprintf("%s#unsupported:state-branch(%s)", shortFn(fr.fn), name), pos,
				"call to "+name+" ("+why+"): the ghost ledger/stores model a single state branch", alive, "false", nil)
		}
		if why := panickyExternal(fn); why != "" {
			// no contract says when this callee panics, and its package panics by design on bad operands
			// (not through safetyCheck: that would assume the condition - false - on the normal path)
			oname := fmt.Sprintf("%s#safety:external-without-panic-contract(%s)", shortFn(fr.fn), name)
			if c := vc.catching(); c != nil {
				if vc.quiet == 0 {
					pc := vc.fresh("maypanic", sortBool)
					c.panicAt(and(alive, pc), st)
					vc.assume(and(alive, "(not "+c.pk+")"), "(not "+pc+")")
				}
			} else if vc.safety {
				vc.oblige("safety", oname, pos, "call to "+name+" ("+why+") has no contract stating when it panics", alive, "false", []string{vc.safetyTag()})
			}
		}
	}
	hv := fr.havocCall(fn.Signature, args, argTypes, st, alive, name)
	if !vc.eng.mayReturnSentinel(fn) {
		vc.assumeNotSentinel(hv, fn.Signature, alive)
	}
	return hv, alive
}

// panickyExternal says why a function of another module may not be assumed total when it has no contract:
// the SDK's number and coin types (and math/big under them) panic on nil receivers, overflow, out-of-range
// conversions, invalid or mismatched denominations; Must* functions panic on any error by convention.
func panickyExternal(fn *ssa.Function) string {
	if strings.HasPrefix(fn.Name(), "Must") {
		return "Must* functions panic on error"
	}
	path := ""
	if fn.Pkg != nil {
		path = fn.Pkg.Pkg.Path()
	} else if recv := fn.Signature.Recv(); recv != nil {
		t := recv.Type()
		if p, ok := t.(*types.Pointer); ok {
			t = p.Elem()
		}
		if n, ok := types.Unalias(t).(*types.Named); ok && n.Obj().Pkg() != nil {
			path = n.Obj().Pkg().Path()
		}
	} else if o := fn.Origin(); o != nil && o.Pkg != nil {
		path = o.Pkg.Pkg.Path()
	}
	switch path {
	case "cosmossdk.io/math", "github.com/cosmos/cosmos-sdk/types", "math/big":
		return "package " + path + " panics on nil, overflow or invalid operands"
	}
	return ""
}

func tupleOf(res []Val, n int) Val {
	switch n {
	case 0:
		return Val{}
	case 1:
		if len(res) == 1 {
			return res[0]
		}
		return Val{}
	}
	return Val{tup: res}
}

func (vc *VC) onStack(fn *ssa.Function) bool {
	for _, f := range vc.curFn {
		if f == fn {
			return true
		}
	}
	return false
}

// hasBody0: the function is part of the repository under verification.
func hasBody0(fn *ssa.Function) bool {
	return fn.Pkg != nil && strings.HasPrefix(fn.Pkg.Pkg.Path(), repoMod)
}

// takesError: some parameter (or the receiver) can carry an error value into the callee.
func takesError(sig *types.Signature) bool {
	errT := types.Universe.Lookup("error").Type().Underlying().(*types.Interface)
	carries := func(t types.Type) bool {
		t = types.Unalias(t)
		if p, ok := t.Underlying().(*types.Pointer); ok {
			t = p.Elem()
		}
		if types.Implements(t, errT) || types.Implements(types.NewPointer(t), errT) {
			return true
		}
		switch u := t.Underlying().(type) {
		case *types.Interface:
			return true // an interface value may hold an error
		case *types.Slice:
			_, isIface := u.Elem().Underlying().(*types.Interface)
			return isIface
		}
		return false
	}
	if r := sig.Recv(); r != nil && carries(r.Type()) {
		return true
	}
	for i := 0; i < sig.Params().Len(); i++ {
		if carries(sig.Params().At(i).Type()) {
			return true
		}
	}
	return false
}

// panicsUnless checks only the panics-unless clauses of a trusted "havoc" spec.
func (fr *frame) panicsUnless(ct *Contract, key string, sig *types.Signature, args []Val, argTypes []types.Type, st *State, alive, pos string, cpkg *ssa.Package) {
	vc := fr.vc
	vc.usedSpecs[key+" ["+ct.Src+"]"] = true
	te := vc.newTEnv(st, st, cpkg)
	for i, n := range ct.Params {
		if i < len(args) && i < len(argTypes) {
			te.bind(n, args[i], argTypes[i])
		}
	}
	short := strings.ReplaceAll(key, repoMod+"/", "")
	for _, cl := range ct.PanicsUnless {
		vc.safetyCheck(fmt.Sprintf("%s#safety:panics-unless(%s)", shortFn(fr.fn), short), pos, "panics-unless "+cl.Text+" ["+cl.Src+"]", alive, te.formula(cl.E), st)
	}
}

// assumeInvs: an inlined callee still has its object invariants ([inv] preconditions: facts established
// by the constructor of the receiver, assumed and never re-proved per call).
func (fr *frame) assumeInvs(ct *Contract, sig *types.Signature, args []Val, argTypes []types.Type, st *State, alive string, cpkg *ssa.Package) {
	vc := fr.vc
	any := false
	for _, cl := range ct.Requires {
		if cl.inSlice(vc.slice) && cl.isInv() {
			any = true
		}
	}
	if !any {
		return
	}
	te := vc.newTEnv(st, st, cpkg)
	var ptypes []types.Type
	if sig.Recv() != nil && len(argTypes) == sig.Params().Len()+1 {
		ptypes = append(ptypes, argTypes[0])
	}
	for i := 0; i < sig.Params().Len(); i++ {
		ptypes = append(ptypes, sig.Params().At(i).Type())
	}
	if len(ptypes) != len(args) {
		ptypes = argTypes
	}
	for i, n := range ct.Params {
		if i < len(args) && i < len(ptypes) {
			te.bind(n, args[i], ptypes[i])
		}
	}
	for _, cl := range ct.Requires {
		if cl.inSlice(vc.slice) && cl.isInv() {
			vc.assume(alive, te.formula(cl.E))
		}
	}
}

// calleeSlice: the postconditions of a callee that may be assumed at a call site. A property proved in
// several passes (subSlices) proves every clause in exactly one pass, on the callee itself; a caller may
// rely on the callee's clauses of all passes of the same property.
func (vc *VC) calleeSlice() map[string]bool {
	if vc.calleeSl != nil {
		return vc.calleeSl
	}
	sl := map[string]bool{}
	for t := range vc.slice {
		sl[t] = true
		for parent, subs := range subSlices {
			for _, s := range subs {
				if t == parent || t == s {
					sl[parent] = true
					for _, s2 := range subs {
						if !strings.HasSuffix(s2, "p") {
							sl[s2] = true
						}
					}
				}
			}
		}
	}
	vc.calleeSl = sl
	return sl
}

func (vc *VC) contractApplies(ct *Contract) bool {
	if ct.NoInline || ct.PureVerdict != "" || ct.PureResult != "" {
		return true
	}
	for _, cl := range ct.Requires {
		if cl.inSlice(vc.slice) && !cl.isInv() {
			return true
		}
	}
	for _, cl := range ct.Ensures {
		if cl.inSlice(vc.calleeSlice()) {
			return true
		}
	}
	return false
}

func (vc *VC) havocAllState(st *State) {
	for k := range st.heaps {
		vc.heapHavoc(st, k)
	}
	for g := range vc.eng.specs.ghostSort {
		vc.ghostHavoc(st, g)
	}
}

// havocCall models a call to an unknown function: results unconstrained within their types,
// memory reachable through pointer arguments to transparent structs is havocked (one level).
func (fr *frame) havocCall(sig *types.Signature, args []Val, argTypes []types.Type, st *State, alive, name string) Val {
	vc := fr.vc
	if c := vc.catching(); c != nil && vc.quiet == 0 {
		defer func() { c.panicAt(alive, st) }()
	}
	reg := vc.eng.types
	for i, a := range args {
		if i >= len(argTypes) {
			break
		}
		at := argTypes[i]
		// a pointer boxed into an interface argument (e.g. a proto.Message) is written through as well
		if _, isIface := types.Unalias(at).Underlying().(*types.Interface); isIface && i < len(fr.curCallArgs)+1 {
			var sv ssa.Value
			off := len(args) - len(fr.curCallArgs)
			if i-off >= 0 && i-off < len(fr.curCallArgs) {
				sv = fr.curCallArgs[i-off]
			}
			if mi, ok := sv.(*ssa.MakeInterface); ok {
				if _, isPtr := types.Unalias(mi.X.Type()).Underlying().(*types.Pointer); isPtr {
					at = mi.X.Type()
					a = fr.operand(mi.X, fr.curEnv)
				}
			}
		}
		pt, ok := types.Unalias(at).Underlying().(*types.Pointer)
		if !ok {
			continue
		}
		if a.ip != nil {
			vc.writeLoc(st, a.ip, vc.fresh("hv", reg.sortOf(a.ip.targetType())))
			continue
		}
		if si := reg.structInfoOf(pt.Elem()); si != nil {
			for j, f := range si.fields {
				vc.writeField(st, a.t, si, j, vc.fresh("hv_"+f.name, f.sort))
			}
		} else if _, isStruct := types.Unalias(pt.Elem()).Underlying().(*types.Struct); isStruct || isCollection(pt.Elem()) {
			// opaque external struct or a collection handle: its content is not modelled
		} else {
			s := reg.sortOf(pt.Elem())
			if _, isArr := types.Unalias(pt.Elem()).Underlying().(*types.Array); !isArr {
				ip := &IPtr{root: rootCell, heap: heapKeyCell(s), vsort: s, ref: a.t, rootT: pt.Elem()}
				vc.writeLoc(st, ip, vc.fresh("hv", s))
			}
		}
	}
	// an unknown callee that receives a context can reach chain state: the ghost "world" stands for
	// every effect that has no contract (used by the authority schema, C10)
	if _, ok := vc.eng.specs.ghostSort["world"]; ok && vc.slice["C10"] {
		for _, t := range argTypes {
			if isContextType(t) {
				vc.ghostHavoc(st, "world")
				break
			}
		}
	}
	na := vc.define("alloc", sortInt, "(+ "+st.alloc+" "+vc.fresh("nalloc", sortInt)+")")
	vc.assume("true", "(>= "+na+" "+st.alloc+")")
	st.alloc = na
	res := sig.Results()
	switch res.Len() {
	case 0:
		return Val{}
	case 1:
		return vc.havocVal(res.At(0).Type(), "r_"+lastName(name), st.alloc)
	}
	return vc.havocVal(res, "r_"+lastName(name), st.alloc)
}

func pkgOfType(t types.Type) *types.Package {
	if n, ok := types.Unalias(t).(*types.Named); ok {
		return n.Obj().Pkg()
	}
	return nil
}

func lastName(s string) string {
	if i := strings.LastIndexAny(s, "./)"); i >= 0 && i+1 < len(s) {
		return s[i+1:]
	}
	return s
}

// applyContract models a call by the callee's contract.
func (fr *frame) applyContract(ct *Contract, key string, sig *types.Signature, args []Val, argTypes []types.Type, st *State, alive, pos string, cpkg *ssa.Package) (Val, string) {
	vc := fr.vc
	ct.used = true
	if vc.exemptC03 == 0 && !fr.exemptC03 {
		ct.usedStrict = true
	}
	if ct.Trusted {
		vc.usedSpecs[key+" ["+ct.Src+"]"] = true
	}
	if ct.Opaque {
		vc.usedSpecs[key+" (in-repo function with an ASSUMED contract: its body is outside the verifier's reach) ["+ct.Src+"]"] = true
	}
	te := vc.newTEnv(st, st.clone(), cpkg)
	old := te.old
	// parameter types: receiver first
	var ptypes []types.Type
	if sig.Recv() != nil && len(argTypes) == sig.Params().Len()+1 {
		ptypes = append(ptypes, argTypes[0])
	}
	for i := 0; i < sig.Params().Len(); i++ {
		ptypes = append(ptypes, sig.Params().At(i).Type())
	}
	if len(ptypes) != len(args) {
		ptypes = argTypes
	}
	for i, n := range ct.Params {
		if i < len(args) {
			te.bind(n, args[i], ptypes[i])
		}
	}
	te.bindLets(ct, true)
	short := strings.ReplaceAll(key, repoMod+"/", "")
	for _, cl := range ct.Requires {
		if !cl.inSlice(vc.slice) {
			continue
		}
		if !cl.isInv() {
			// object invariants ([inv]) are established by the constructor and are not re-proved per call
			vc.oblige("pre", fmt.Sprintf("%s#pre:%s", shortFn(fr.fn), short), pos, "requires "+cl.Text+" ["+cl.Src+"]", alive, te.goalFormula(cl.E), cl.Tags)
		}
		vc.assume(alive, te.formula(cl.E))
	}
	for _, cl := range ct.PanicsUnless {
		f := te.formula(cl.E)
		vc.safetyCheck(fmt.Sprintf("%s#safety:panics-unless(%s)", shortFn(fr.fn), short), pos, "panics-unless "+cl.Text+" ["+cl.Src+"]", alive, f, st)
	}
	// havoc modifies
	for _, m := range ct.Modifies {
		te.havocDesignator(m, st)
	}
	for _, g := range ct.Counts {
		if _, ok := vc.eng.specs.ghostSort[g]; ok {
			vc.ghostSet(st, g, "(+ "+vc.ghostGet(old, g)+" 1)")
		}
	}
	for _, sd := range ct.Sets {
		if _, ok := vc.eng.specs.ghostSort[sd.Name]; ok {
			vc.ghostSet(st, sd.Name, te.withState(old).term(sd.E).t)
		}
	}
	if !ct.HasModifies && ct.Trusted {
		// trusted contracts without a modifies clause are pure
	}
	na := vc.define("alloc", sortInt, "(+ "+st.alloc+" "+vc.fresh("nalloc", sortInt)+")")
	vc.assume("true", "(>= "+na+" "+st.alloc+")")
	st.alloc = na
	vc.trackAlloc(na)
	// results
	res := sig.Results()
	var rv Val
	var rvals []Val
	for i := 0; i < res.Len(); i++ {
		hint := "r"
		if i < len(ct.Results) {
			hint = ct.Results[i]
		}
		v := vc.havocVal(res.At(i).Type(), hint+"_"+lastName(short), st.alloc)
		rvals = append(rvals, v)
	}
	rv = tupleOf(rvals, res.Len())
	te2 := vc.newTEnv(st, old, cpkg)
	te2.vars = te.vars
	for i, n := range ct.Results {
		if i < len(rvals) {
			te2.bind(n, rvals[i], res.At(i).Type())
		}
	}
	te2.bindLets(ct, false)
	for _, cl := range ct.Ensures {
		if !cl.inSlice(vc.calleeSlice()) {
			continue
		}
		vc.assume(alive, te2.formula(cl.E))
	}
	for _, sd := range ct.SetsPost {
		if _, ok := vc.eng.specs.ghostSort[sd.Name]; ok {
			vc.ghostSet(st, sd.Name, te2.term(sd.E).t)
		}
	}
	if ct.PureResult != "" && len(rvals) > 0 {
		hasRecv := sig.Recv() != nil && len(args) == sig.Params().Len()+1
		vc.assume(alive, "(= "+rvals[0].t+" "+vc.namedTerm(ct.PureResult, sig, args, hasRecv)+")")
	}
	if ct.PureVerdict != "" {
		if ei := errResultIndex(sig); ei >= 0 && ei < len(rvals) {
			var rt types.Type
			if sig.Recv() != nil && len(args) == sig.Params().Len()+1 {
				rt = ptypes[0]
			}
			vc.assume(alive, "(= (= (itag "+rvals[ei].t+") 0) "+vc.verdictTerm(ct, sig, args, rt)+")")
		}
	}
	return rv, alive
}

func (fr *frame) execBuiltin(b *ssa.Builtin, c *ssa.CallCommon, args []Val, st *State, alive string, instr ssa.Value) Val {
	vc := fr.vc
	reg := vc.eng.types
	switch b.Name() {
	case "ssa:wrapnilchk":
		vc.safetyCheck(fmt.Sprintf("%s#safety:nil-deref(value method through nil pointer)", shortFn(fr.fn)), vc.pos(c.Pos()), "nil pointer receiver for value method", alive, "(not (= "+args[0].t+" 0))", st)
		return args[0]
	case "len":
		switch t := types.Unalias(c.Args[0].Type()).Underlying().(type) {
		case *types.Slice:
			return Val{t: "(slen " + args[0].t + ")"}
		case *types.Basic:
			vc.assumeOnce("(<= (str.len " + args[0].t + ") 9223372036854775807)")
			return Val{t: "(str.len " + args[0].t + ")"}
		case *types.Array:
			return Val{t: fmt.Sprint(t.Len())}
		case *types.Pointer:
			if at, ok := t.Elem().Underlying().(*types.Array); ok {
				return Val{t: fmt.Sprint(at.Len())}
			}
		case *types.Map:
			if un, ok := c.Args[0].(*ssa.UnOp); ok {
				if g, ok2 := un.X.(*ssa.Global); ok2 {
					if lit := vc.eng.mapLiteral(g); lit != nil {
						return Val{t: fmt.Sprint(len(lit))}
					}
				}
			}
			if isStringType(t.Key()) {
				// the length of a map is a function of its key set
				pk, ps, _, _ := fr.mapHeaps(t)
				hp := vc.heapGet(st, pk, ps)
				vc.declareRaw("maplen!String", "(declare-fun maplen!String ((Array String Bool)) Int)")
				return Val{t: "(maplen!String (select " + hp + " " + args[0].t + "))"}
			}
		}
		v := vc.havocVal(instr.Type(), "len", "")
		vc.assume("true", "(>= "+v.t+" 0)")
		return v
	case "cap":
		v := vc.havocVal(instr.Type(), "cap", "")
		if _, ok := types.Unalias(c.Args[0].Type()).Underlying().(*types.Slice); ok {
			vc.assume("true", "(>= "+v.t+" (slen "+args[0].t+"))")
		}
		return v
	case "append":
		s := args[0]
		sl := types.Unalias(c.Args[0].Type()).Underlying().(*types.Slice)
		es := reg.sortOf(sl.Elem())
		key := heapKeyElem(es)
		hs := "(Array Int (Array Int " + es + "))"
		ref := vc.newRef(st, "append")
		h := vc.heapGet(st, key, hs)
		base := "(select " + h + " (sref " + s.t + "))"
		if len(args) < 2 {
			return s
		}
		t := args[1]
		if m := sliceLitRe.FindStringSubmatch(t.t); m != nil && !isStringType(c.Args[1].Type()) {
			n, _ := strconv.Atoi(m[2])
			arr := base
			for j := 0; j < n; j++ {
				elem := fmt.Sprintf("(select (select %s %s) %d)", h, m[1], j)
				arr = fmt.Sprintf("(store %s (+ (soff %s) (slen %s) %d) %s)", arr, s.t, s.t, j, elem)
			}
			vc.logWrite(key, ref)
			vc.heapSet(st, key, hs, "(store "+h+" "+ref+" "+arr+")")
			return Val{t: vc.define("appended", sortSlice, fmt.Sprintf("(mkSlice %s (soff %s) (+ (slen %s) %d))", ref, s.t, s.t, n))}
		}
		// general case: quantified description of the new backing array
		arr := vc.fresh("apparr", "(Array Int "+es+")")
		var tlen, telem string
		if isStringType(c.Args[1].Type()) {
			tlen = "(str.len " + t.t + ")"
			telem = "(str.to_code (str.at " + t.t + " j!))"
		} else {
			tlen = "(slen " + t.t + ")"
			telem = "(select (select " + h + " (sref " + t.t + ")) (+ (soff " + t.t + ") j!))"
		}
		vc.assume("true", fmt.Sprintf("(forall ((j! Int)) (=> (and (<= 0 j!) (< j! (slen %s))) (= (select %s j!) (select %s (+ (soff %s) j!)))))", s.t, arr, base, s.t))
		vc.assume("true", fmt.Sprintf("(forall ((j! Int)) (=> (and (<= 0 j!) (< j! %s)) (= (select %s (+ (slen %s) j!)) %s)))", tlen, arr, s.t, telem))
		vc.logWrite(key, ref)
		vc.heapSet(st, key, hs, "(store "+h+" "+ref+" "+arr+")")
		return Val{t: vc.define("appended", sortSlice, fmt.Sprintf("(mkSlice %s 0 (+ (slen %s) %s))", ref, s.t, tlen))}
	case "copy":
		dst, src := args[0], args[1]
		sl := types.Unalias(c.Args[0].Type()).Underlying().(*types.Slice)
		es := reg.sortOf(sl.Elem())
		key := heapKeyElem(es)
		hs := "(Array Int (Array Int " + es + "))"
		h := vc.heapGet(st, key, hs)
		var slen, selem string
		if isStringType(c.Args[1].Type()) {
			slen = "(str.len " + src.t + ")"
			selem = "(str.to_code (str.at " + src.t + " j!))"
		} else {
			slen = "(slen " + src.t + ")"
			selem = "(select (select " + h + " (sref " + src.t + ")) (+ (soff " + src.t + ") j!))"
		}
		n := vc.define("copied", sortInt, fmt.Sprintf("(ite (< (slen %s) %s) (slen %s) %s)", dst.t, slen, dst.t, slen))
		arr := vc.fresh("cparr", "(Array Int "+es+")")
		old := "(select " + h + " (sref " + dst.t + "))"
		vc.assume("true", fmt.Sprintf("(forall ((j! Int)) (=> (and (<= 0 j!) (< j! %s)) (= (select %s (+ (soff %s) j!)) %s)))", n, arr, dst.t, selem))
		vc.assume("true", fmt.Sprintf("(forall ((j! Int)) (=> (or (< j! (soff %s)) (>= j! (+ (soff %s) %s))) (= (select %s j!) (select %s j!))))", dst.t, dst.t, n, arr, old))
		vc.logWrite(key, "(sref "+dst.t+")")
		vc.heapSet(st, key, hs, "(store "+h+" (sref "+dst.t+") "+arr+")")
		if es == sortInt && !isStringType(c.Args[1].Type()) {
			// a full copy of a byte slice has the same abstract value
			vc.assume("true", fmt.Sprintf("(=> (= (slen %s) (slen %s)) (= (bytesval %s (soff %s) (slen %s)) (bytesval (select %s (sref %s)) (soff %s) (slen %s))))", dst.t, src.t, arr, dst.t, dst.t, h, src.t, src.t, src.t))
		}
		return Val{t: n}
	case "delete":
		mt := types.Unalias(c.Args[0].Type()).Underlying().(*types.Map)
		pk, ps, _, _ := fr.mapHeaps(mt)
		h := vc.heapGet(st, pk, ps)
		vc.logWrite(pk, args[0].t)
		vc.heapSet(st, pk, ps, "(store "+h+" "+args[0].t+" (store (select "+h+" "+args[0].t+") "+args[1].t+" false))")
		return Val{}
	case "print", "println":
		return Val{}
	case "recover":
		if n := len(vc.recoverVals); n > 0 {
			return Val{t: vc.recoverVals[n-1]}
		}
		vc.note("recover() outside a recognised deferred closure: nil")
		return Val{t: "(mkIface 0 0)"}
	case "min", "max":
		if len(args) == 2 {
			op := "<"
			if b.Name() == "max" {
				op = ">"
			}
			return Val{t: "(ite (" + op + " " + args[0].t + " " + args[1].t + ") " + args[0].t + " " + args[1].t + ")"}
		}
	}
	vc.note("builtin %s havocked", b.Name())
	if instr.Type() == nil {
		return Val{}
	}
	return vc.havocVal(instr.Type(), b.Name(), st.alloc)
}

func isContextType(t types.Type) bool {
	n, ok := types.Unalias(t).(*types.Named)
	if !ok {
		return false
	}
	q := qualifiedName(n)
	return q == "context.Context" || q == "github.com/cosmos/cosmos-sdk/types.Context"
}

// stateBranching says why a call leaves the single-branch model of the ledger and the stores ("" if it does not).
func stateBranching(fn *ssa.Function) string {
	name := fn.Name()
	if recv := fn.Signature.Recv(); recv != nil {
		rt := recv.Type()
		if p, ok := rt.(*types.Pointer); ok {
			rt = p.Elem()
		}
		if nt, ok := types.Unalias(rt).(*types.Named); ok && nt.Obj().Pkg() != nil && nt.Obj().Pkg().Path() == "github.com/cosmos/cosmos-sdk/types" && nt.Obj().Name() == "Context" {
			switch name {
			case "CacheContext":
				return "branches the state: writes are invisible to the parent until written back, and the write-back overwrites"
			case "WithMultiStore", "WithEventManager", "WithContext":
				return "derives a context over a different store or event manager"
			}
		}
		switch name {
		case "CacheMultiStore", "CacheMultiStoreWithVersion", "CacheWrap", "CacheWrapWithTrace":
			return "branches the store"
		}
		return ""
	}
	if fn.Pkg != nil {
		switch fn.Pkg.Pkg.Path() + "." + name {
		case "context.Background", "context.TODO", "github.com/cosmos/cosmos-sdk/types.NewContext":
			return "creates a context that is not the caller's"
		}
	}
	return ""
}
