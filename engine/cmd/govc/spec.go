package main

// Contracts: structures and parser for //@ contract files in /repo (build tag verif)
// and assumed-contract files in /verif/specs.

import (
	"fmt"
	"os"
	"path/filepath"
	"regexp"
	"sort"
	"strconv"
	"strings"
)

type Clause struct {
	Kind string // requires ensures panics-unless invariant assume
	Tags []string
	Text string
	E    Expr
	Src  string
}

func (c *Clause) isInv() bool {
	for _, t := range c.Tags {
		if t == "inv" {
			return true
		}
	}
	return false
}

func (c *Clause) inSlice(slice map[string]bool) bool {
	if len(c.Tags) == 0 {
		return true
	}
	for _, t := range c.Tags {
		if t == "base" || t == "inv" || slice[t] || slice["*"] {
			return true
		}
	}
	return false
}

type LoopAnn struct {
	Unroll int
	Invs   []*Clause
}

type ModItem struct {
	Text string
	E    Expr // nil for "nothing"
}

type Contract struct {
	Key          string
	Params       []string // receiver first for methods
	Results      []string
	Requires     []*Clause
	Ensures      []*Clause
	PanicsUnless []*Clause
	Modifies     []ModItem
	HasModifies  bool
	Loops        map[int]*LoopAnn
	Walks        map[int]*LoopAnn // invariants of the implicit loops of collections' Walk calls, by ordinal
	WalkLen      string           // trusted Walk spec: enumeration length function,
	WalkAt       string           // i-th key function,
	WalkSet      Expr             // the key set (membership array) they enumerate,
	WalkVal      Expr             // and, for maps, the stored value of key `wkey`
	Trusted      bool             // assumed (external or interface-level trusted)
	Src          string
	Swallows     []string
	NoInline     bool
	Opaque       bool // treat body as unavailable (verify callers against contract only)
	Havoc        bool // trusted spec that only says when the callee panics; results and effects stay unknown (havoc)
	Lets         []LetDef
	Implementers []string // interface contracts: only implementations whose name contains one of these are checked
	SetsPost     []LetDef // ghost := expr (evaluated in the post-state) after every call of this (interface) method
	Sets         []LetDef // ghost := expr (evaluated in the pre-state) at every call site of this (interface) method
	Counts       []string // ghost counters incremented at every call site of this (interface) method
	PureResult   string   // name of the logic function giving the first result as a function of the parameters
	PureVerdict  string   // name of the logic function giving "first error result is nil" as a function of the parameters
	used         bool
	usedStrict   bool // used outside a declared error swallow (C03)
}

type LetDef struct {
	Name string
	E    Expr
	Old  bool
}

type Macro struct {
	Name   string
	Params []string
	Body   Expr
	Pkg    string // package path of the contract file that defines it ("" for /verif/specs)
}

type Lemma struct {
	Name string
	Tags []string
	Text string
	E    Expr
	Src  string
	Pkg  string
}

type GhostDecl struct {
	Name, Sort string
	Src        string
}

type SpecDB struct {
	contracts map[string]*Contract
	macros    map[string]*Macro
	ghosts    []GhostDecl
	ghostSort map[string]string
	preamble  []string // raw SMT
	funSigs   map[string]funSig
	axioms    []*Clause // quantified/global axioms in contract language (trusted)
	lemmas    []*Lemma
	typeinvs  map[string]*TypeInv // "<pkg path>.<type name>" -> object invariant
	errors    []string
}

// TypeInv: `typeinv T macroName New1 New2`: every non-nil *T satisfies macroName(x). It is proved, not
// assumed: the named constructors ensure it (their contracts must say so and are verified in every run that
// uses it), values of T are allocated in those constructors only and their fields are stored nowhere else
// (SSA scan typeinv#immutable).
type TypeInv struct {
	Pkg, Type, Macro string
	Ctors            []string
	Src              string
}

type funSig struct {
	args []string
	ret  string
}

func newSpecDB() *SpecDB {
	return &SpecDB{
		contracts: map[string]*Contract{},
		macros:    map[string]*Macro{},
		typeinvs:  map[string]*TypeInv{},
		ghostSort: map[string]string{},
		funSigs:   map[string]funSig{},
	}
}

var typeArgRe = regexp.MustCompile(`\[[^\[\]]*\]`)

// normKey strips generic type arguments from a function key.
func normKey(k string) string {
	for {
		n := typeArgRe.ReplaceAllString(k, "")
		if n == k {
			return n
		}
		k = n
	}
}

var clauseKw = map[string]bool{
	"func": true, "spec": true, "requires": true, "ensures": true, "modifies": true, "loop": true,
	"panics-unless": true, "macro": true, "ghost": true, "axiom": true, "swallows": true,
	"noinline": true, "opaque": true, "havoc": true, "walk": true, "walks": true, "pure-verdict": true, "pure-result": true, "counts": true, "sets": true, "sets-post": true, "implementers": true, "let": true, "letold": true, "smt": true, "lemma": true, "typeinv": true,
}

type rawItem struct {
	text string
	src  string
}

func splitItems(lines []string, file string, lineNos []int) []rawItem {
	var items []rawItem
	for i, l := range lines {
		t := strings.TrimSpace(l)
		if t == "" || strings.HasPrefix(t, "#") {
			continue
		}
		// strip trailing // comments (not inside strings)
		t = stripComment(t)
		if t == "" {
			continue
		}
		first := t
		if j := strings.IndexAny(t, " \t[("); j >= 0 {
			first = t[:j]
		}
		if clauseKw[first] {
			items = append(items, rawItem{t, fmt.Sprintf("%s:%d", file, lineNos[i])})
		} else if len(items) > 0 {
			items[len(items)-1].text += " " + t
		}
	}
	return items
}

func stripComment(s string) string {
	inStr := false
	for i := 0; i < len(s); i++ {
		switch s[i] {
		case '\\':
			if inStr {
				i++
			}
		case '"':
			inStr = !inStr
		case '/':
			if !inStr && i+1 < len(s) && s[i+1] == '/' {
				return strings.TrimSpace(s[:i])
			}
		case '#':
			if !inStr && (i == 0 || s[i-1] == ' ' || s[i-1] == '\t') {
				return strings.TrimSpace(s[:i])
			}
		}
	}
	return s
}

var hdrRe = regexp.MustCompile(`^(\(.*?\)\.[A-Za-z_0-9$]+(?:@[^\s(]+)?|[^\s(]+)\s*\(([^()]*)\)\s*(?:\(([^()]*)\))?$`)
var inRepoHdrRe = regexp.MustCompile(`^(?:\(\s*([A-Za-z_0-9]*)\s*(\*?)\s*([A-Za-z_0-9]+(?:\[[^\]]*\])?)\s*\)\s*)?([A-Za-z_0-9$]+)\s*\(([^()]*)\)\s*(?:\(([^()]*)\))?$`)

func splitNames(s string) []string {
	var out []string
	for _, p := range strings.Split(s, ",") {
		p = strings.TrimSpace(p)
		if p != "" {
			out = append(out, p)
		}
	}
	return out
}

func parseTags(rest string) ([]string, string) {
	rest = strings.TrimSpace(rest)
	if strings.HasPrefix(rest, "[") {
		j := strings.Index(rest, "]")
		if j > 0 {
			return splitNames(rest[1:j]), strings.TrimSpace(rest[j+1:])
		}
	}
	return nil, rest
}

// loadItems parses a sequence of items. pkgPath != "" means in-repo contract file of that package.
func (db *SpecDB) loadItems(items []rawItem, pkgPath string, trusted bool) {
	var cur *Contract
	fail := func(it rawItem, f string, a ...interface{}) {
		db.errors = append(db.errors, it.src+": "+fmt.Sprintf(f, a...))
	}
	for _, it := range items {
		t := it.text
		kw := t
		rest := ""
		if j := strings.IndexAny(t, " \t["); j >= 0 {
			kw = t[:j]
			rest = strings.TrimSpace(t[j:])
			if t[j] == '[' {
				rest = t[j:]
			}
		}
		switch kw {
		case "func", "spec":
			c := &Contract{Loops: map[int]*LoopAnn{}, Src: it.src, Trusted: trusted}
			if kw == "func" && pkgPath != "" {
				m := inRepoHdrRe.FindStringSubmatch(rest)
				if m == nil {
					fail(it, "bad func header %q", rest)
					cur = nil
					continue
				}
				recvName, star, recvType, name, params, results := m[1], m[2], m[3], m[4], m[5], m[6]
				if recvType != "" {
					if star == "*" {
						c.Key = "(*" + pkgPath + "." + recvType + ")." + name
					} else {
						c.Key = "(" + pkgPath + "." + recvType + ")." + name
					}
					if recvName == "" {
						recvName = "self"
					}
					c.Params = append(c.Params, recvName)
				} else {
					c.Key = pkgPath + "." + name
				}
				c.Params = append(c.Params, splitNames(params)...)
				c.Results = splitNames(results)
			} else {
				m := hdrRe.FindStringSubmatch(rest)
				if m == nil {
					fail(it, "bad spec header %q", rest)
					cur = nil
					continue
				}
				c.Key = m[1]
				if !strings.Contains(c.Key, "@") {
					c.Key = normKey(c.Key)
				}
				c.Params = splitNames(m[2])
				c.Results = splitNames(m[3])
			}
			if old, dup := db.contracts[c.Key]; dup {
				fail(it, "duplicate contract for %s (first at %s)", c.Key, old.Src)
			}
			db.contracts[c.Key] = c
			cur = c
		case "requires", "ensures", "panics-unless":
			if cur == nil {
				fail(it, "clause outside contract")
				continue
			}
			tags, text := parseTags(rest)
			e, err := parseExpr(text)
			if err != nil {
				fail(it, "%v", err)
				continue
			}
			cl := &Clause{Kind: kw, Tags: tags, Text: text, E: e, Src: it.src}
			switch kw {
			case "requires":
				cur.Requires = append(cur.Requires, cl)
			case "ensures":
				cur.Ensures = append(cur.Ensures, cl)
			default:
				cur.PanicsUnless = append(cur.PanicsUnless, cl)
			}
		case "let", "letold":
			if cur == nil {
				fail(it, "let outside contract")
				continue
			}
			j := strings.Index(rest, "=")
			if j < 0 {
				fail(it, "bad let")
				continue
			}
			e, err := parseExpr(rest[j+1:])
			if err != nil {
				fail(it, "%v", err)
				continue
			}
			cur.Lets = append(cur.Lets, LetDef{Name: strings.TrimSpace(rest[:j]), E: e, Old: kw == "letold"})
		case "modifies":
			if cur == nil {
				fail(it, "modifies outside contract")
				continue
			}
			cur.HasModifies = true
			for _, p := range splitTop(rest) {
				p = strings.TrimSpace(p)
				if p == "" {
					continue
				}
				if p == "nothing" {
					continue
				}
				e, err := parseExpr(p)
				if err != nil {
					fail(it, "%v", err)
					continue
				}
				cur.Modifies = append(cur.Modifies, ModItem{Text: p, E: e})
			}
		case "loop":
			if cur == nil {
				fail(it, "loop outside contract")
				continue
			}
			f := strings.Fields(rest)
			if len(f) < 2 {
				fail(it, "bad loop clause")
				continue
			}
			n, err := strconv.Atoi(f[0])
			if err != nil {
				fail(it, "bad loop ordinal")
				continue
			}
			la := cur.Loops[n]
			if la == nil {
				la = &LoopAnn{}
				cur.Loops[n] = la
			}
			after := strings.TrimSpace(strings.TrimPrefix(rest, f[0]))
			switch {
			case strings.HasPrefix(after, "unroll"):
				k, err := strconv.Atoi(strings.TrimSpace(strings.TrimPrefix(after, "unroll")))
				if err != nil {
					fail(it, "bad unroll count")
					continue
				}
				la.Unroll = k
			case strings.HasPrefix(after, "invariant"):
				tags, text := parseTags(strings.TrimPrefix(after, "invariant"))
				e, err := parseExpr(text)
				if err != nil {
					fail(it, "%v", err)
					continue
				}
				la.Invs = append(la.Invs, &Clause{Kind: "invariant", Tags: tags, Text: text, E: e, Src: it.src})
			default:
				fail(it, "unknown loop clause %q", after)
			}
		case "walk":
			// walk N invariant[tags] formula
			if cur == nil {
				fail(it, "walk outside contract")
				continue
			}
			f := strings.Fields(rest)
			n, err := strconv.Atoi(f[0])
			if err != nil || len(f) < 2 {
				fail(it, "bad walk clause")
				continue
			}
			after := strings.TrimSpace(strings.TrimPrefix(rest, f[0]))
			if !strings.HasPrefix(after, "invariant") {
				fail(it, "unknown walk clause %q", after)
				continue
			}
			tags, text := parseTags(strings.TrimPrefix(after, "invariant"))
			e, err := parseExpr(text)
			if err != nil {
				fail(it, "%v", err)
				continue
			}
			if cur.Walks == nil {
				cur.Walks = map[int]*LoopAnn{}
			}
			if cur.Walks[n] == nil {
				cur.Walks[n] = &LoopAnn{}
			}
			cur.Walks[n].Invs = append(cur.Walks[n].Invs, &Clause{Kind: "walk-invariant", Tags: tags, Text: text, E: e, Src: it.src})
		case "walks":
			// walks lenFn atFn :: setExpr [:: valueExpr]
			if cur == nil {
				fail(it, "walks outside spec")
				continue
			}
			parts := strings.Split(rest, "::")
			f := strings.Fields(parts[0])
			if len(f) != 2 || len(parts) < 2 {
				fail(it, "bad walks clause")
				continue
			}
			cur.WalkLen, cur.WalkAt = f[0], f[1]
			e, err := parseExpr(strings.TrimSpace(parts[1]))
			if err != nil {
				fail(it, "%v", err)
				continue
			}
			cur.WalkSet = e
			if len(parts) > 2 {
				e2, err := parseExpr(strings.TrimSpace(parts[2]))
				if err != nil {
					fail(it, "%v", err)
					continue
				}
				cur.WalkVal = e2
			}
		case "swallows":
			if cur != nil {
				cur.Swallows = append(cur.Swallows, strings.Fields(rest)[0])
			}
		case "sets", "sets-post":
			if cur != nil {
				j := strings.Index(rest, "=")
				if j < 0 {
					fail(it, "bad sets clause")
					continue
				}
				e, err := parseExpr(rest[j+1:])
				if err != nil {
					fail(it, "%v", err)
					continue
				}
				if kw == "sets-post" {
					cur.SetsPost = append(cur.SetsPost, LetDef{Name: strings.TrimSpace(rest[:j]), E: e})
				} else {
					cur.Sets = append(cur.Sets, LetDef{Name: strings.TrimSpace(rest[:j]), E: e})
				}
			}
		case "implementers":
			if cur != nil {
				cur.Implementers = append(cur.Implementers, strings.Fields(rest)...)
			}
		case "counts":
			if cur != nil {
				cur.Counts = append(cur.Counts, strings.Fields(rest)...)
			}
		case "pure-verdict":
			if cur != nil {
				cur.PureVerdict = strings.TrimSpace(rest)
			}
		case "pure-result":
			if cur != nil {
				cur.PureResult = strings.TrimSpace(rest)
			}
		case "noinline":
			if cur != nil {
				cur.NoInline = true
			}
		case "opaque":
			if cur != nil {
				cur.Opaque = true
			}
		case "havoc":
			if cur != nil {
				cur.Havoc = true
			}
		case "macro":
			// macro name(a, b) = expr
			j := strings.Index(rest, "=")
			if j < 0 {
				fail(it, "bad macro")
				continue
			}
			head := strings.TrimSpace(rest[:j])
			// careful: '=' might be part of '==' in body only; head has none.
			k := strings.Index(head, "(")
			if k < 0 || !strings.HasSuffix(head, ")") {
				fail(it, "bad macro header")
				continue
			}
			e, err := parseExpr(rest[j+1:])
			if err != nil {
				fail(it, "%v", err)
				continue
			}
			name := strings.TrimSpace(head[:k])
			db.macros[name] = &Macro{Name: name, Params: splitNames(head[k+1 : len(head)-1]), Body: e, Pkg: pkgPath}
		case "ghost":
			// ghost name Sort
			f := strings.SplitN(rest, " ", 2)
			if len(f) != 2 {
				fail(it, "bad ghost decl")
				continue
			}
			db.ghosts = append(db.ghosts, GhostDecl{Name: f[0], Sort: strings.TrimSpace(f[1]), Src: it.src})
			db.ghostSort[f[0]] = strings.TrimSpace(f[1])
		case "axiom":
			tags, text := parseTags(rest)
			e, err := parseExpr(text)
			if err != nil {
				fail(it, "%v", err)
				continue
			}
			db.axioms = append(db.axioms, &Clause{Kind: "axiom", Tags: tags, Text: text, E: e, Src: it.src})
		case "typeinv":
			f := strings.Fields(rest)
			if len(f) < 3 {
				fail(it, "bad typeinv (want: typeinv Type macro Ctor...)")
				continue
			}
			db.typeinvs[pkgPath+"."+f[0]] = &TypeInv{Pkg: pkgPath, Type: f[0], Macro: f[1], Ctors: f[2:], Src: it.src}
			cur = nil
		case "smt":
			db.addPreamble(rest)
		case "lemma":
			// lemma[tags] name: formula
			tags, text := parseTags(rest)
			j := strings.Index(text, ":")
			if j < 0 {
				fail(it, "bad lemma (want name: formula)")
				continue
			}
			e, err := parseExpr(text[j+1:])
			if err != nil {
				fail(it, "%v", err)
				continue
			}
			db.lemmas = append(db.lemmas, &Lemma{Name: strings.TrimSpace(text[:j]), Tags: tags, Text: strings.TrimSpace(text[j+1:]), E: e, Src: it.src, Pkg: pkgPath})
			cur = nil
		}
	}
}

// split on top-level commas
func splitTop(s string) []string {
	var out []string
	depth := 0
	last := 0
	for i, c := range s {
		switch c {
		case '(', '[':
			depth++
		case ')', ']':
			depth--
		case ',':
			if depth == 0 {
				out = append(out, s[last:i])
				last = i + 1
			}
		}
	}
	out = append(out, s[last:])
	return out
}

// sexpr is a parsed s-expression: atom or list.
type sexpr struct {
	atom   string
	list   []*sexpr
	isList bool
}

func (s *sexpr) String() string {
	if !s.isList {
		return s.atom
	}
	var parts []string
	for _, c := range s.list {
		parts = append(parts, c.String())
	}
	return "(" + strings.Join(parts, " ") + ")"
}

func parseSExpr(src string) *sexpr {
	pos := 0
	var parse func() *sexpr
	skip := func() {
		for pos < len(src) && (src[pos] == ' ' || src[pos] == '\t' || src[pos] == '\n') {
			pos++
		}
	}
	parse = func() *sexpr {
		skip()
		if pos >= len(src) {
			return nil
		}
		if src[pos] == '(' {
			pos++
			n := &sexpr{isList: true}
			for {
				skip()
				if pos >= len(src) {
					return n
				}
				if src[pos] == ')' {
					pos++
					return n
				}
				c := parse()
				if c == nil {
					return n
				}
				n.list = append(n.list, c)
			}
		}
		start := pos
		if src[pos] == '"' {
			pos++
			for pos < len(src) {
				if src[pos] == '"' {
					if pos+1 < len(src) && src[pos+1] == '"' {
						pos += 2
						continue
					}
					pos++
					break
				}
				pos++
			}
			return &sexpr{atom: src[start:pos]}
		}
		for pos < len(src) && !strings.ContainsRune(" \t\n()", rune(src[pos])) {
			pos++
		}
		return &sexpr{atom: src[start:pos]}
	}
	return parse()
}

func (db *SpecDB) addPreamble(line string) {
	line = strings.TrimSpace(line)
	if line == "" {
		return
	}
	db.preamble = append(db.preamble, line)
	se := parseSExpr(line)
	if se == nil || !se.isList || len(se.list) < 3 {
		return
	}
	switch se.list[0].atom {
	case "declare-fun":
		if len(se.list) == 4 {
			var args []string
			for _, a := range se.list[2].list {
				args = append(args, a.String())
			}
			db.funSigs[se.list[1].atom] = funSig{args: args, ret: se.list[3].String()}
		}
	case "declare-const":
		db.funSigs[se.list[1].atom] = funSig{ret: se.list[2].String()}
	case "define-fun", "define-fun-rec":
		if len(se.list) >= 5 {
			var args []string
			for _, a := range se.list[2].list {
				if len(a.list) == 2 {
					args = append(args, a.list[1].String())
				}
			}
			db.funSigs[se.list[1].atom] = funSig{args: args, ret: se.list[3].String()}
		}
	}
}

// loadSpecDir loads /verif/specs/*.spec and *.smt2
func (db *SpecDB) loadSpecDir(dir string) error {
	ents, err := os.ReadDir(dir)
	if err != nil {
		return err
	}
	var names []string
	for _, e := range ents {
		names = append(names, e.Name())
	}
	sort.Strings(names)
	for _, n := range names {
		p := filepath.Join(dir, n)
		switch {
		case strings.HasSuffix(n, ".smt2"):
			data, err := os.ReadFile(p)
			if err != nil {
				return err
			}
			for _, form := range topLevelForms(string(data)) {
				db.addPreamble(form)
			}
		case strings.HasSuffix(n, ".spec"):
			data, err := os.ReadFile(p)
			if err != nil {
				return err
			}
			lines := strings.Split(string(data), "\n")
			nos := make([]int, len(lines))
			for i := range nos {
				nos[i] = i + 1
			}
			db.loadItems(splitItems(lines, "specs/"+n, nos), "", true)
		}
	}
	return nil
}

// topLevelForms splits an SMT-LIB file into top-level forms, dropping comments.
func topLevelForms(src string) []string {
	var out []string
	depth := 0
	var cur strings.Builder
	inStr := false
	for i := 0; i < len(src); i++ {
		c := src[i]
		if !inStr && c == ';' {
			for i < len(src) && src[i] != '\n' {
				i++
			}
			cur.WriteByte(' ')
			continue
		}
		if c == '"' {
			inStr = !inStr
		}
		if !inStr {
			if c == '(' {
				depth++
			}
			if c == ')' {
				depth--
			}
			if c == '\n' || c == '\t' {
				c = ' '
			}
		}
		if depth > 0 || c == ')' {
			cur.WriteByte(c)
		}
		if depth == 0 && c == ')' {
			s := strings.Join(strings.Fields(cur.String()), " ")
			out = append(out, s)
			cur.Reset()
		}
	}
	return out
}

// loadContractFile loads //@ lines from an in-repo Go file.
func (db *SpecDB) loadContractFile(path, pkgPath string) error {
	data, err := os.ReadFile(path)
	if err != nil {
		return err
	}
	var lines []string
	var nos []int
	for i, l := range strings.Split(string(data), "\n") {
		t := strings.TrimSpace(l)
		if strings.HasPrefix(t, "//@") {
			lines = append(lines, strings.TrimPrefix(t, "//@"))
			nos = append(nos, i+1)
		} else if strings.HasPrefix(t, "// @") { // gofmt-rewritten form
			lines = append(lines, strings.TrimPrefix(t, "// @"))
			nos = append(nos, i+1)
		}
	}
	rel := path
	if i := strings.Index(path, "/"+strings.TrimPrefix(pkgPath, repoMod+"/")+"/"); i >= 0 && pkgPath != repoMod {
		rel = path[i+1:]
	} else {
		rel = filepath.Base(path)
	}
	db.loadItems(splitItems(lines, rel, nos), pkgPath, false)
	return nil
}
