package main

import (
	"encoding/json"
	"flag"
	"fmt"
	"os"
	"path/filepath"
	"runtime"
	"strings"
)

func usage() {
	fmt.Fprintln(os.Stderr, `usage:
  govc dump <substring>                         print SSA of matching functions
  govc verify [-slice C04,..] [-safety] [-keep] <function-key-substring>
  govc check <property-id> <quick|thorough>     run the check of a property
  govc list                                     list contracts
  govc conform [-n N] [-out file.json] [substring]   test trusted specs of plain-value functions against the real code`)
	os.Exit(2)
}

func main() {
	if len(os.Args) < 2 {
		usage()
	}
	repo := os.Getenv("VERIF_REPO")
	if repo == "" {
		repo = "/repo"
	}
	verifDir := os.Getenv("VERIF_DIR")
	if verifDir == "" {
		verifDir = "/verif"
	}
	switch os.Args[1] {
	case "dump":
		e, err := loadEngine(repo, verifDir)
		if err != nil {
			fmt.Fprintln(os.Stderr, err)
			os.Exit(2)
		}
		for _, fn := range e.allFns {
			if strings.Contains(fn.String(), os.Args[2]) {
				fn.WriteTo(os.Stdout)
				fmt.Println()
			}
		}
	case "list":
		e, err := loadEngine(repo, verifDir)
		if err != nil {
			fmt.Fprintln(os.Stderr, err)
			os.Exit(2)
		}
		for k, c := range e.specs.contracts {
			n := len(e.fnByKey[k])
			fmt.Printf("%-100s trusted=%v fns=%d src=%s\n", k, c.Trusted, n, c.Src)
		}
		for _, er := range e.specs.errors {
			fmt.Println("SPEC ERROR:", er)
		}
	case "conform":
		fs := flag.NewFlagSet("conform", flag.ExitOnError)
		n := fs.Int("n", 300, "inputs per spec")
		outFile := fs.String("out", "", "write the report as JSON")
		fs.Parse(os.Args[2:])
		e, err := loadEngine(repo, verifDir)
		if err != nil {
			fmt.Fprintln(os.Stderr, err)
			os.Exit(2)
		}
		reps, bad := e.conformAll(fs.Arg(0), *n)
		tested := 0
		for _, r := range reps {
			if r.Skipped != "" {
				continue
			}
			tested++
			fmt.Printf("%-70s %4d inputs (%d returned, %d panicked): %d clause checks held, %d inconclusive, %d mismatches\n", r.Spec, r.Inputs, r.Returned, r.Panicked, r.ClausesHeld, r.Inconclusive, len(r.Mismatches))
			for _, m := range r.Mismatches {
				fmt.Println("    SPEC-MISMATCH:", m)
			}
			for _, m := range r.Imprecise {
				fmt.Println("    imprecise:", m)
			}
		}
		fmt.Printf("conform: %d trusted specs, %d tested against the real functions, %d with mismatches\n", len(reps), tested, bad)
		if *outFile != "" {
			b, _ := json.MarshalIndent(reps, "", " ")
			os.WriteFile(*outFile, b, 0o644)
		}
		if bad > 0 {
			os.Exit(1)
		}
	case "verify":
		fs := flag.NewFlagSet("verify", flag.ExitOnError)
		slice := fs.String("slice", "*", "property tags")
		safety := fs.Bool("safety", false, "generate safety obligations")
		keep := fs.Bool("keep", false, "keep all query files")
		dir := fs.String("dir", "/var/tmp/govc-queries", "query directory")
		to := fs.Int("t", 10, "solver timeout")
		fs.Parse(os.Args[2:])
		e, err := loadEngine(repo, verifDir)
		if err != nil {
			fmt.Fprintln(os.Stderr, err)
			os.Exit(2)
		}
		for _, er := range e.specs.errors {
			fmt.Println("SPEC ERROR:", er)
		}
		sl := map[string]bool{}
		for _, s := range strings.Split(*slice, ",") {
			sl[s] = true
		}
		os.MkdirAll(*dir, 0o755)
		pat := fs.Arg(0)
		for _, fn := range e.allFns {
			if len(fn.Blocks) == 0 || !strings.Contains(fnKey(fn), pat) {
				continue
			}
			if fn.TypeParams().Len() > 0 && len(fn.TypeArgs()) == 0 {
				continue
			}
			ct := e.specs.contracts[fnKey(fn)]
			e.useTypeInv = *safety
			vc := e.verifyFunc(fn, ct, sl, *safety, nil)
			tally := &Tally{BySolver: map[string]int{}}
			vc.discharge(SolveOpts{Dir: *dir, Timeouts: []int{*to}, Parallel: 16, KeepAll: *keep}, tally)
			fmt.Printf("== %s: %d obligations, %d asserts, %d decls\n", fn.String(), len(vc.obls), len(vc.asserts), len(vc.decls))
			for _, o := range vc.obls {
				fmt.Printf("  %-10s %-8s %-90s %s %.2fs\n", o.Status, o.Kind, o.Name, o.Solver, o.Seconds)
				if o.Status != "discharged" {
					fmt.Printf("      clause: %s\n      pos: %s\n      query: %s\n", o.Clause, o.Pos, o.Query)
				}
			}
			for _, n := range vc.notes {
				fmt.Println("  note:", n)
			}
			for u := range vc.unsupported {
				fmt.Println("  unsupported:", u)
			}
			for u := range vc.havocked {
				fmt.Println("  havocked:", u)
			}
			for u := range vc.inlinedFns {
				fmt.Println("  inlined:", u)
			}
		}
		for m := range e.specErrors {
			fmt.Println("SPEC ERROR:", m)
		}
	case "check":
		if len(os.Args) < 4 {
			usage()
		}
		os.Exit(safeCheck(repo, verifDir, os.Args[2], os.Args[3]))
	default:
		usage()
	}
}

// safeCheck: the generator must not die on code it cannot handle. A panic inside the engine (seen only on
// changed trees whose contracts no longer fit the code) is reported as an undecided obligation of the
// property - conservatively a violation without a failing input - instead of an exit status that says nothing.
func safeCheck(repo, verifDir, prop, tier string) (rc int) {
	defer func() {
		if r := recover(); r != nil {
			out := os.Getenv("VERIF_OUT")
			if out == "" {
				out = verifDir
			}
			dir := filepath.Join(out, "replay", prop)
			os.MkdirAll(dir, 0o755)
			path := filepath.Join(dir, "engine_error.json")
			buf := make([]byte, 16384)
			buf = buf[:runtime.Stack(buf, false)]
			doc, _ := json.MarshalIndent(map[string]interface{}{"property": prop, "obligation": "engine#internal-error", "kind": "engine",
				"clause": "the verification-condition generator handles the code of this tree", "solver": map[string]string{"answer": "undecided", "output": fmt.Sprint(r) + "\n" + string(buf)},
				"replay": map[string]interface{}{"ran": false, "confirmed": false, "note": "no-failing-input-found: the generator failed on this tree (a contract no longer fits the code it is attached to); the property is undecided, which is reported as a violation"}}, "", " ")
			os.WriteFile(path, doc, 0o644)
			fmt.Printf("FAILED engine %s#internal-error [undecided]\n        %v\n", prop, r)
			fmt.Printf("VIOLATION property=%s replay=%s no-failing-input-found\n", prop, path)
			rc = 1
		}
	}()
	return runCheck(repo, verifDir, prop, tier)
}
