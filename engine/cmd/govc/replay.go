package main

// Replay of a counterexample against the real code.
//
// When an obligation of a function whose parameters are plain values (integers, strings, booleans,
// math.Int; a value receiver of such a type included) is refuted by a solver with a model, the model's
// parameter values are turned into Go literals, the REAL function is called with them from an in-package
// test that is injected with `go test -overlay` (nothing is written into the repository), and what it
// returned - or the panic it raised - is observed. The violation is confirmed when
//   - the obligation is a safety obligation and the call panicked, or
//   - the obligation is a postcondition and the observed results contradict it: the query with the
//     parameters pinned to the model's values, the results pinned to the observed ones and the
//     postcondition asserted positively is unsatisfiable.
// Anything else (pointer/slice/interface parameters, models that depend on quantified assumptions,
// obligations deep inside the receive path) is reported without a failing input.

import (
	"encoding/json"
	"fmt"
	"go/types"
	"math/big"
	"os"
	"os/exec"
	"path/filepath"
	"sort"
	"strconv"
	"strings"
	"time"

	"golang.org/x/tools/go/ssa"
)

type replayResult struct {
	Ran       bool                   `json:"ran"`
	Confirmed bool                   `json:"confirmed"`
	Note      string                 `json:"note"`
	Inputs    map[string]string      `json:"inputs,omitempty"`
	Observed  map[string]interface{} `json:"observed,omitempty"`
	Facts     []string               `json:"vocabulary_facts,omitempty"` // the parsing vocabulary evaluated at the strings of this run (what it stands for, computed by the real library functions)
	Test      string                 `json:"test_source,omitempty"`
	Command   string                 `json:"command,omitempty"`
}

// replayable: every parameter can be written as a Go literal from an SMT value.
func replayableType(t types.Type) bool {
	if isMathInt(t) {
		return true
	}
	switch u := types.Unalias(t).Underlying().(type) {
	case *types.Basic:
		return u.Info()&(types.IsInteger|types.IsString|types.IsBoolean) != 0
	}
	_, _, ok := plainStruct(t)
	return ok
}

// plainStruct: a named struct whose (at most six, exported) fields are integers, strings, booleans or math.Int:
// it can be written as a composite literal and compared field by field.
func plainStruct(t types.Type) (*types.Named, *types.Struct, bool) {
	n, ok := types.Unalias(t).(*types.Named)
	if !ok || isMathInt(t) || isAccAddress(t) || isCollection(t) {
		return nil, nil, false
	}
	st, ok := n.Underlying().(*types.Struct)
	if !ok || st.NumFields() == 0 || st.NumFields() > 6 {
		return nil, nil, false
	}
	for i := 0; i < st.NumFields(); i++ {
		f := st.Field(i)
		if !f.Exported() || f.Embedded() {
			return nil, nil, false
		}
		if isMathInt(f.Type()) {
			continue
		}
		b, ok := types.Unalias(f.Type()).Underlying().(*types.Basic)
		if !ok || b.Info()&(types.IsInteger|types.IsString|types.IsBoolean) == 0 {
			return nil, nil, false
		}
	}
	return n, st, true
}

// curReg: the sort registry of the engine in use (accessor names of struct sorts)
var curReg *TypeReg

func (cr *checkRun) tryReplayModel(o *Obligation, vc *VC) *replayResult {
	fn := vc.targetFn
	if fn == nil || (o.Status != "failed" && !(o.Status == "unknown" && o.candidate != "")) || o.Query == "" || fn.Pkg == nil || !inRepo(fn.Pkg.Pkg) {
		return nil
	}
	if !replayEligible(o, vc) {
		return nil
	}
	if o.Kind != "post" && o.Kind != "safety" {
		return nil
	}
	if o.Kind == "safety" && !strings.HasPrefix(o.Name, shortFn(fn)+"#") {
		return nil // the panic point is in an inlined callee reached through state the model does not pin
	}
	if fn.Parent() != nil || fn.TypeParams().Len() > 0 || len(fn.TypeArgs()) > 0 {
		return nil
	}
	for _, p := range fn.Params {
		if !replayableType(p.Type()) {
			return nil
		}
	}
	if len(vc.paramVals) != len(fn.Params) {
		return nil
	}
	q, err := os.ReadFile(o.Query)
	if err != nil {
		return nil
	}
	query := string(q)
	// 1. model values of the parameters
	var names []string
	for _, v := range vc.paramVals {
		names = append(names, v.t)
	}
	modelQuery := query
	if o.Status == "unknown" {
		// candidate model: quantified assumptions dropped (solvers answer "unknown" in their presence); the
		// candidate is only trusted if the replay confirms it against the full query below
		var b strings.Builder
		for _, l := range strings.Split(query, "\n") {
			if strings.HasPrefix(l, "(assert ") && (strings.Contains(l, "(forall ") || strings.Contains(l, "(exists ")) && !strings.HasPrefix(l, "(assert (not ") {
				continue
			}
			b.WriteString(l)
			b.WriteByte('\n')
		}
		modelQuery = b.String()
	}
	vals, ok := getValues(modelQuery, names)
	if !ok {
		return &replayResult{Note: "no-failing-input-found: the solver's model could not be read back"}
	}
	res := &replayResult{Inputs: map[string]string{}}
	var lits []string
	imports := map[string]string{}
	for i, p := range fn.Params {
		lit, ok := goLiteral(p.Type(), vals[i], fn.Pkg.Pkg, imports)
		if !ok {
			return &replayResult{Note: "no-failing-input-found: model value " + vals[i] + " of parameter " + p.Name() + " has no Go literal"}
		}
		lits = append(lits, lit)
		res.Inputs[p.Name()] = lit
	}
	// 2. the test
	sig := fn.Signature
	var call string
	if sig.Recv() != nil {
		call = "(" + lits[0] + ")." + fn.Name() + "(" + strings.Join(lits[1:], ", ") + ")"
	} else {
		call = fn.Name() + "(" + strings.Join(lits, ", ") + ")"
	}
	lhs, record := recordStmts(sig)
	assign := ""
	if len(lhs) > 0 {
		assign = strings.Join(lhs, ", ") + " := "
	}
	var imp []string
	for path, alias := range imports {
		imp = append(imp, fmt.Sprintf("\t%s %q", alias, path))
	}
	sort.Strings(imp)
	src := fmt.Sprintf(`package %s

import (
	"encoding/json"
	"fmt"
	"os"
	"testing"
%s
)

// generated by govc: replays the solver's counterexample for %s on the real code
func TestGovcReplay(t *testing.T) {
	out := map[string]interface{}{}
	func() {
		defer func() {
			if r := recover(); r != nil {
				out["panic"] = fmt.Sprint(r)
			}
		}()
		%s%s
		%s
	}()
	b, _ := json.Marshal(out)
	_ = os.WriteFile(os.Getenv("GOVC_REPLAY_OUT"), b, 0o644)
	_ = fmt.Sprint()
}
`, fn.Pkg.Pkg.Name(), strings.Join(imp, "\n"), o.Name, assign, call, strings.Join(record, "\n\t\t"))
	res.Test = src
	dir, err := os.MkdirTemp("/var/tmp", "govc-replay-")
	if err != nil {
		return nil
	}
	defer os.RemoveAll(dir)
	pkgDir := filepath.Dir(cr.e.prog.Fset.Position(fn.Pos()).Filename)
	testFile := filepath.Join(dir, "zz_govc_replay_test.go")
	os.WriteFile(testFile, []byte(src), 0o644)
	ov, _ := json.Marshal(map[string]interface{}{"Replace": map[string]string{filepath.Join(pkgDir, "zz_govc_replay_test.go"): testFile}})
	ovFile := filepath.Join(dir, "overlay.json")
	os.WriteFile(ovFile, ov, 0o644)
	outFile := filepath.Join(dir, "out.json")
	rel, _ := filepath.Rel(cr.e.repo, pkgDir)
	cmd := exec.Command("go", "test", "-overlay", ovFile, "-vet=off", "-count=1", "-timeout", "60s", "-run", "^TestGovcReplay$", "./"+rel+"/")
	cmd.Dir = cr.e.repo
	cmd.Env = append(os.Environ(), "GOFLAGS=", "GOVC_REPLAY_OUT="+outFile)
	res.Command = "cd " + cr.e.repo + " && GOFLAGS= go test -overlay <overlay placing the test source below into " + rel + "/> -vet=off -count=1 -timeout 60s -run '^TestGovcReplay$' ./" + rel + "/"
	done := make(chan error, 1)
	var out []byte
	go func() { var err error; out, err = cmd.CombinedOutput(); done <- err }()
	select {
	case <-done:
	case <-time.After(180 * time.Second):
		if cmd.Process != nil {
			cmd.Process.Kill()
		}
		res.Note = "no-failing-input-found: the replay test did not finish"
		return res
	}
	data, err := os.ReadFile(outFile)
	if err != nil {
		res.Note = "no-failing-input-found: the replay test could not be built or run: " + tail(string(out), 400)
		return res
	}
	res.Ran = true
	json.Unmarshal(data, &res.Observed)
	// 3. verdict
	if _, panicked := res.Observed["panic"]; panicked {
		if o.Kind == "safety" {
			res.Confirmed = true
			res.Note = "the real function panics on the solver's input"
		} else {
			res.Confirmed = true
			res.Note = "the real function panics on the solver's input instead of returning"
		}
		return res
	}
	if o.Kind == "safety" {
		res.Note = "no-failing-input-found: the real function does not panic on the model's input (the model depends on unconstrained parts of the specification vocabulary)"
		return res
	}
	// postcondition: pin inputs and observed outputs, assert the postcondition, expect unsat
	i := strings.LastIndex(query, "(assert (not ")
	j := strings.LastIndex(query, "(check-sat)")
	if i < 0 || j < i || len(vc.resultVals) != sig.Results().Len() {
		res.Note = "no-failing-input-found: replay ran, but the outcome could not be compared with the clause"
		return res
	}
	goalNeg := strings.TrimSpace(query[i:j]) // (assert (not G))
	goal := "(assert " + strings.TrimSuffix(strings.TrimPrefix(goalNeg, "(assert (not "), "))") + ")"
	var pins []string
	for k, n := range names {
		pins = append(pins, "(assert (= "+n+" "+vals[k]+"))")
	}
	rp, complete := resultPins(sig, vc.resultVals, res.Observed)
	if !complete {
		res.Note = "no-failing-input-found: replay ran, but a result of the call is of a type the harness does not record"
		return res
	}
	pins = append(pins, rp...)
	confirmQ := query[:i] + strings.Join(pins, "\n") + "\n" + goal + "\n(check-sat)\n"
	confirmQ = strings.Replace(confirmQ, "(declare-fun mulI (Int Int) Int)", "(define-fun mulI ((a Int) (b Int)) Int (* a b))", 1)
	cf := filepath.Join(dir, "confirm.smt2")
	os.WriteFile(cf, []byte(confirmQ), 0o644)
	// sanity: the observed run must itself be a run the generated conditions admit (inputs and observed
	// results pinned, no goal). If it is not, the generator's semantics and the real code disagree, and an
	// "unsat" below would say nothing about the clause.
	sanityQ := dropQuantified(query[:i]) + strings.Join(pins, "\n") + "\n(check-sat)\n"
	sanityQ = strings.Replace(sanityQ, "(declare-fun mulI (Int Int) Int)", "(define-fun mulI ((a Int) (b Int)) Int (* a b))", 1)
	sf := filepath.Join(dir, "sanity.smt2")
	os.WriteFile(sf, []byte(sanityQ), 0o644)
	for _, s := range solvers {
		ans, _, _ := runSolver(s, sf, 5)
		if ans == "unsat" {
			res.Note = "no-failing-input-found: ENGINE-MISMATCH - the results the real function returned on the model's input are not a run the verification conditions admit (" + s.name + "); the generator's model of this function or a trusted spec it uses is wrong"
			return res
		}
		if ans == "sat" {
			break
		}
	}
	for _, s := range solvers {
		ans, _, _ := runSolver(s, cf, 20)
		if ans == "unsat" {
			res.Confirmed = true
			res.Note = "the results the real function returns on the solver's input contradict the clause (checked by " + s.name + " with inputs and observed results pinned)"
			return res
		}
		if ans == "sat" {
			break
		}
	}
	res.Note = "no-failing-input-found: the real function's results on the model's input do not contradict the clause (the model depends on unconstrained parts of the specification vocabulary)"
	return res
}

func tail(s string, n int) string {
	if len(s) > n {
		return s[len(s)-n:]
	}
	return s
}

// getValues asks the solver for the values of the given constants in a model of the query.
func getValues(query string, names []string) ([]string, bool) {
	j := strings.LastIndex(query, "(check-sat)")
	if j < 0 || len(names) == 0 {
		return nil, false
	}
	// products of two symbolic integers are an uninterpreted function in the proof queries (a sound
	// abstraction); a model is only useful for replay if multiplication means multiplication
	query = strings.Replace(query, "(declare-fun mulI (Int Int) Int)", "(define-fun mulI ((a Int) (b Int)) Int (* a b))", 1)
	j = strings.LastIndex(query, "(check-sat)")
	q := query[:j] + "(check-sat)\n(get-value (" + strings.Join(names, " ") + "))\n"
	f, err := os.CreateTemp("/var/tmp", "govc-model-*.smt2")
	if err != nil {
		return nil, false
	}
	defer os.Remove(f.Name())
	f.WriteString(q)
	f.Close()
	_, out, _ := runSolver(solvers[0], f.Name(), 20)
	lines := strings.SplitN(out, "\n", 2)
	if len(lines) < 2 || strings.TrimSpace(lines[0]) != "sat" {
		return nil, false
	}
	se := parseSExpr(strings.TrimSpace(lines[1]))
	if se == nil || len(se.list) != len(names) {
		return nil, false
	}
	var vals []string
	for _, pair := range se.list {
		if len(pair.list) != 2 {
			return nil, false
		}
		vals = append(vals, pair.list[1].String())
	}
	return vals, true
}

// goLiteral renders an SMT value as a Go expression of type t (from inside package pkg).
func goLiteral(t types.Type, v string, pkg *types.Package, imports map[string]string) (string, bool) {
	typeName := func() (string, bool) {
		n, ok := types.Unalias(t).(*types.Named)
		if !ok {
			return types.TypeString(t, nil), true
		}
		if n.Obj().Pkg() == nil || n.Obj().Pkg() == pkg {
			return n.Obj().Name(), true
		}
		alias := "p_" + sanitize(n.Obj().Pkg().Name())
		imports[n.Obj().Pkg().Path()] = alias
		return alias + "." + n.Obj().Name(), true
	}
	if isMathInt(t) {
		se := parseSExpr(v)
		if se == nil || len(se.list) != 3 {
			return "", false
		}
		imports["cosmossdk.io/math"] = "p_sdkmath"
		if se.list[1].String() == "true" {
			return "p_sdkmath.Int{}", true
		}
		n, ok := smtIntValue(se.list[2].String())
		if !ok || n.BitLen() > 256 {
			return "", false
		}
		imports["math/big"] = "p_big"
		return fmt.Sprintf(`p_sdkmath.NewIntFromBigInt(func() *p_big.Int { x, _ := new(p_big.Int).SetString("%s", 10); return x }())`, n.String()), true
	}
	if _, st, ok := plainStruct(t); ok {
		se := parseSExpr(v)
		if se == nil || len(se.list) != st.NumFields()+1 {
			return "", false
		}
		tn, _ := typeName()
		var parts []string
		for i := 0; i < st.NumFields(); i++ {
			fl, ok := goLiteral(st.Field(i).Type(), se.list[i+1].String(), pkg, imports)
			if !ok {
				return "", false
			}
			parts = append(parts, st.Field(i).Name()+": "+fl)
		}
		return tn + "{" + strings.Join(parts, ", ") + "}", true
	}
	b, ok := types.Unalias(t).Underlying().(*types.Basic)
	if !ok {
		return "", false
	}
	tn, _ := typeName()
	switch {
	case b.Info()&types.IsString != 0:
		s, ok := smtStringValue(v)
		if !ok {
			return "", false
		}
		return tn + "(" + strconv.Quote(s) + ")", true
	case b.Info()&types.IsBoolean != 0:
		return tn + "(" + v + ")", v == "true" || v == "false"
	case b.Info()&types.IsInteger != 0:
		n, ok := smtIntValue(v)
		if !ok {
			return "", false
		}
		bits, signed, _ := intBits(t)
		if signed && (n.BitLen() >= bits) || !signed && (n.Sign() < 0 || n.BitLen() > bits) {
			return "", false
		}
		return tn + "(" + n.String() + ")", true
	}
	return "", false
}

func smtIntValue(v string) (*big.Int, bool) {
	v = strings.TrimSpace(v)
	neg := false
	if strings.HasPrefix(v, "(-") {
		neg = true
		v = strings.TrimSpace(strings.TrimSuffix(strings.TrimPrefix(v, "(-"), ")"))
	}
	n, ok := new(big.Int).SetString(v, 10)
	if !ok {
		return nil, false
	}
	if neg {
		n.Neg(n)
	}
	return n, true
}

// smtStringValue decodes an SMT-LIB string literal ("" for a quote, \u{X} escapes).
func smtStringValue(v string) (string, bool) {
	if len(v) < 2 || v[0] != '"' || v[len(v)-1] != '"' {
		return "", false
	}
	v = strings.ReplaceAll(v[1:len(v)-1], `""`, `"`)
	var b strings.Builder
	for i := 0; i < len(v); {
		if strings.HasPrefix(v[i:], `\u{`) {
			j := strings.Index(v[i:], "}")
			if j < 0 {
				return "", false
			}
			n, err := strconv.ParseUint(v[i+3:i+j], 16, 32)
			if err != nil || n > 255 {
				return "", false // Go strings are bytes here; keep to Latin-1 code points
			}
			b.WriteByte(byte(n))
			i += j + 1
			continue
		}
		if strings.HasPrefix(v[i:], `\x`) && i+3 < len(v) {
			n, err := strconv.ParseUint(v[i+2:i+4], 16, 8)
			if err == nil {
				b.WriteByte(byte(n))
				i += 4
				continue
			}
		}
		b.WriteByte(v[i])
		i++
	}
	return b.String(), true
}

func replayEligible(o *Obligation, vc *VC) bool {
	fn := vc.targetFn
	if fn == nil || o.Query == "" || fn.Pkg == nil || !inRepo(fn.Pkg.Pkg) {
		return false
	}
	if o.Kind != "post" && o.Kind != "safety" {
		return false
	}
	if o.Kind == "safety" && !strings.HasPrefix(o.Name, shortFn(fn)+"#") {
		return false
	}
	if fn.Parent() != nil || fn.TypeParams().Len() > 0 || len(fn.TypeArgs()) > 0 || fn.Signature.Variadic() {
		return false
	}
	for _, p := range fn.Params {
		if !replayableType(p.Type()) {
			return false
		}
	}
	return len(vc.paramVals) == len(fn.Params)
}

// tryReplay: first the solver's own model; when that does not reproduce on the real code (or there is no
// model: unknown/timeout), a bounded search over generated inputs (conform.go: boundary integers, a pool of
// strings and structured string tuples, the constants of the function) for one on which the real function
// contradicts the clause. A searched input is confirmed exactly like a model input.
func (cr *checkRun) tryReplay(o *Obligation, vc *VC) *replayResult {
	curReg = cr.e.types
	res := cr.tryReplayModel(o, vc)
	if res != nil && res.Confirmed {
		return res
	}
	if !replayEligible(o, vc) || (o.Status != "failed" && o.Status != "unknown" && o.Status != "timeout") {
		return res
	}
	sr := cr.searchReplay(o, vc)
	if sr != nil && sr.Confirmed {
		return sr
	}
	if res == nil {
		return sr
	}
	if sr != nil && sr.Note != "" {
		res.Note += "; " + sr.Note
	}
	return res
}

type batchRun struct {
	budget  float64 // seconds of solver time left for the searches of this function
	tuples  [][]inVal
	obs     []map[string]interface{}
	imports map[string]string
	err     error
}

// constantsOf: string and integer constants of a function and of the in-repo functions it calls directly
func constantsOf(fn *ssa.Function, depth int, strs map[string]bool, ints map[string]*big.Int) {
	for _, b := range fn.Blocks {
		for _, ins := range b.Instrs {
			for _, op := range ins.Operands(nil) {
				if op == nil || *op == nil {
					continue
				}
				if c, ok := (*op).(*ssa.Const); ok && c.Value != nil {
					switch c.Value.Kind().String() {
					case "String":
						if s, err := strconv.Unquote(c.Value.ExactString()); err == nil && len(s) <= 40 {
							strs[s] = true
						}
					case "Int":
						if n, ok := new(big.Int).SetString(c.Value.ExactString(), 10); ok {
							ints[n.String()] = n
						}
					}
				}
			}
			if call, ok := ins.(ssa.CallInstruction); ok && depth > 0 {
				if cal := call.Common().StaticCallee(); cal != nil && cal.Pkg != nil && inRepo(cal.Pkg.Pkg) && cal != fn {
					constantsOf(cal, depth-1, strs, ints)
				}
			}
		}
	}
}

func (cr *checkRun) searchReplay(o *Obligation, vc *VC) *replayResult {
	fn := vc.targetFn
	sig := fn.Signature
	if cr.batches == nil {
		cr.batches = map[*ssa.Function]*batchRun{}
	}
	br := cr.batches[fn]
	pkgDir := filepath.Dir(cr.e.prog.Fset.Position(fn.Pos()).Filename)
	callOf := func(lits []string) string {
		if sig.Recv() != nil {
			return "(" + lits[0] + ")." + fn.Name() + "(" + strings.Join(lits[1:], ", ") + ")"
		}
		return fn.Name() + "(" + strings.Join(lits, ", ") + ")"
	}
	if br == nil {
		br = &batchRun{imports: map[string]string{}, budget: 45}
		cr.batches[fn] = br
		strs, ints := map[string]bool{}, map[string]*big.Int{}
		constantsOf(fn, 2, strs, ints)
		var es []string
		for s := range strs {
			es = append(es, s)
		}
		sort.Strings(es)
		var ei []*big.Int
		for _, n := range ints {
			ei = append(ei, n, new(big.Int).Add(n, big.NewInt(1)), new(big.Int).Sub(n, big.NewInt(1)))
		}
		sort.Slice(ei, func(i, j int) bool { return ei[i].Cmp(ei[j]) < 0 })
		var ptypes []types.Type
		for _, p := range fn.Params {
			ptypes = append(ptypes, p.Type())
		}
		br.tuples = genTuples(ptypes, fn.Pkg.Pkg, br.imports, es, ei, 400)
		if len(br.tuples) == 0 {
			br.err = fmt.Errorf("no inputs generated")
		} else {
			br.obs, _, br.err = runBatch(cr.e.repo, pkgDir, fn.Pkg.Pkg.Name(), br.imports, sig, callOf, br.tuples, "bounded input search for "+shortFn(fn))
		}
	}
	if br.err != nil {
		return &replayResult{Note: "bounded input search not run: " + br.err.Error()}
	}
	q, err := os.ReadFile(o.Query)
	if err != nil {
		return nil
	}
	query := string(q)
	i := strings.LastIndex(query, "(assert (not ")
	j := strings.LastIndex(query, "(check-sat)")
	if i < 0 || j < i {
		return nil
	}
	prefix := query[:i]
	goalNeg := strings.TrimSpace(query[i:j])
	goal := "(assert " + strings.TrimSuffix(strings.TrimPrefix(goalNeg, "(assert (not "), "))") + ")"
	type cand struct {
		idx  int
		pins string
	}
	var cands []cand
	var blocks []string
	for ti, tu := range br.tuples {
		var pins []string
		for k, v := range tu {
			pins = append(pins, v.pin(vc.paramVals[k].t))
		}
		pins = append(pins, factsOf(br.obs[ti])...)
		_, panicked := br.obs[ti]["panic"]
		if o.Kind == "safety" {
			if !panicked {
				continue
			}
			// the input must be one the function's precondition admits
			cands = append(cands, cand{ti, strings.Join(pins, "\n")})
			blocks = append(blocks, strings.Join(pins, "\n"))
			continue
		}
		if panicked || len(vc.resultVals) != sig.Results().Len() {
			continue
		}
		rp, complete := resultPins(sig, vc.resultVals, br.obs[ti])
		if !complete {
			continue
		}
		all := strings.Join(append(pins, rp...), "\n")
		cands = append(cands, cand{ti, all})
		blocks = append(blocks, all+"\n"+goal)
	}
	n := len(br.tuples)
	if len(cands) == 0 {
		return &replayResult{Note: fmt.Sprintf("bounded input search: none of %d generated inputs gives a comparable run", n)}
	}
	if br.budget < 3 {
		return &replayResult{Note: "bounded input search: time budget of this function used up by earlier obligations"}
	}
	fast := dropQuantified(prefix)
	t0 := time.Now()
	defer func() { br.budget -= time.Since(t0).Seconds() }()
	ans := multiCheckBudget(fast, blocks, 1, int(br.budget*0.7)+1)
	mk := func(c cand, note string) *replayResult {
		shown := map[string]interface{}{}
		for k, v := range br.obs[c.idx] {
			if k != "facts" {
				shown[k] = v
			}
		}
		res := &replayResult{Ran: true, Confirmed: true, Note: note, Inputs: map[string]string{}, Observed: shown, Facts: factsOf(br.obs[c.idx])}
		var lits []string
		for k, v := range br.tuples[c.idx] {
			res.Inputs[fn.Params[k].Name()] = v.goLit
			lits = append(lits, v.goLit)
		}
		_, src, _ := "", "", 0
		_ = src
		lhs, record := recordStmts(sig)
		assign := ""
		if len(lhs) > 0 {
			assign = strings.Join(lhs, ", ") + " := "
		}
		var imp []string
		for path, alias := range br.imports {
			imp = append(imp, fmt.Sprintf("\t%s %q", alias, path))
		}
		sort.Strings(imp)
		res.Test = fmt.Sprintf("package %s\n\nimport (\n\t\"encoding/json\"\n\t\"fmt\"\n\t\"os\"\n\t\"testing\"\n%s\n)\n\n// generated by govc: failing input for %s found by bounded input search, replayed on the real code\nfunc TestGovcReplay(t *testing.T) {\n\tout := map[string]interface{}{}\n\tfunc() {\n\t\tdefer func() {\n\t\t\tif r := recover(); r != nil {\n\t\t\t\tout[\"panic\"] = fmt.Sprint(r)\n\t\t\t}\n\t\t}()\n\t\t%s%s\n\t\t%s\n\t}()\n\tb, _ := json.Marshal(out)\n\t_ = os.WriteFile(os.Getenv(\"GOVC_REPLAY_OUT\"), b, 0o644)\n\t_ = fmt.Sprint()\n}\n",
			fn.Pkg.Pkg.Name(), strings.Join(imp, "\n"), o.Name, assign, callOf(lits), strings.Join(record, "\n\t\t"))
		rel, _ := filepath.Rel(cr.e.repo, pkgDir)
		res.Command = "cd " + cr.e.repo + " && GOFLAGS= go test -overlay <overlay placing the test source below into " + rel + "/> -vet=off -count=1 -timeout 60s -run '^TestGovcReplay$' ./" + rel + "/"
		return res
	}
	if o.Kind == "safety" {
		for k, c := range cands {
			if ans[k] == "sat" {
				return mk(c, fmt.Sprintf("the real function panics on an input its precondition admits (input found by bounded search over %d generated inputs; admissibility checked by z3-new)", n))
			}
		}
		return &replayResult{Note: fmt.Sprintf("bounded input search: the real function panicked on none of the admissible inputs among %d generated", n)}
	}
	// post: contradiction candidates, then the sanity query (the observed run is one the conditions admit)
	var second []cand
	var sblocks []string
	for k, c := range cands {
		if ans[k] == "unsat" {
			second = append(second, c)
			sblocks = append(sblocks, c.pins)
			if len(second) >= 12 {
				break
			}
		}
	}
	if len(second) == 0 {
		return &replayResult{Note: fmt.Sprintf("bounded input search: the real function's results contradict the clause on none of %d generated inputs", n)}
	}
	sans := multiCheckBudget(fast, sblocks, 2, 12)
	for k, c := range second {
		if sans[k] != "unsat" {
			return mk(c, fmt.Sprintf("the results the real function returns contradict the clause (input found by bounded search over %d generated inputs after the solver gave no reproducing model; checked by z3-new with inputs and observed results pinned, and the observed run is one the verification conditions admit)", n))
		}
	}
	return &replayResult{Note: fmt.Sprintf("bounded input search over %d inputs: candidates contradicted the clause only together with the verification conditions (ENGINE-MISMATCH suspected)", n)}
}
