package main

// C19 - determinism side conditions.
//
// The verification conditions this tool generates model every in-repo function as a mathematical
// function of its arguments and of the state it reads. For Go that holds except for a short list of
// constructs whose result the language leaves open or ties to the process: ranging over a map,
// select / goroutines / channels, reading clocks, randomness, environment and runtime introspection,
// pointer-to-integer conversions, and formatting a value in a way that prints an address. C19 is the
// statement that none of these is reachable in consensus code, so it is decided by obligations of the
// form "this instruction is a deterministic function of its operands", one per function, discharged by
// inspection of the SSA (no SMT involved: the obligations are syntactic). What the scan cannot see -
// determinism of external packages (SDK, ibc-go, bridges, collections iteration order, the text of their
// errors) - is listed as assumed.

import (
	"fmt"
	"go/constant"
	"go/token"
	"go/types"
	"sort"
	"strings"

	"golang.org/x/tools/go/ssa"
)

func init() { propertyHooks["C19"] = hookC19 }

var nondetCalls = []string{
	"time.Now", "time.Since", "time.Until", "time.After", "time.Tick", "time.NewTimer", "time.NewTicker", "time.Sleep",
	"math/rand.", "math/rand/v2.", "crypto/rand.", "os.Getenv", "os.LookupEnv", "os.Environ", "os.Hostname", "os.Getpid", "os.Getwd",
	"os.ReadFile", "os.Open", "runtime.NumGoroutine", "runtime.Caller", "runtime.Callers", "runtime.Stack", "runtime.NumCPU", "runtime.GOMAXPROCS",
	"runtime/debug.Stack", "(*sync.Map).Range", "reflect.Value.MapKeys", "(reflect.Value).MapKeys", "(reflect.Value).MapRange", "(reflect.Value).Pointer", "(reflect.Value).UnsafeAddr",
	"maps.Keys", "maps.Values", "maps.All", "golang.org/x/exp/maps.Keys", "golang.org/x/exp/maps.Values",
}

// formatting functions: index of the format parameter (receiver counted) and whether a format exists
var formatFns = map[string]int{
	"fmt.Sprintf": 0, "fmt.Errorf": 0, "fmt.Fprintf": 1, "fmt.Printf": 0, "fmt.Appendf": 1,
	"cosmossdk.io/errors.Wrapf": 1, "(*cosmossdk.io/errors.Error).Wrapf": 1,
	"github.com/pkg/errors.Wrapf": 1, "github.com/pkg/errors.Errorf": 0,
}
var printFns = map[string]bool{"fmt.Sprint": true, "fmt.Sprintln": true, "fmt.Fprint": true, "fmt.Fprintln": true, "fmt.Print": true, "fmt.Println": true, "fmt.Append": true, "fmt.Appendln": true}

// processLocalCalls: library state that lives in the process, not in the store: a result that depends on it depends
// on the history of the process (restarts, other instances), which is not part of "prior state and input".
var processLocalCalls = []string{"(*sync.Map).", "(*sync.Pool).", "sync/atomic.", "(*sync/atomic."}

// globalRoot: the package-level variable an address or a loaded map value is rooted in (nil if none)
func globalRoot(v ssa.Value) *ssa.Global {
	for i := 0; i < 8 && v != nil; i++ {
		switch x := v.(type) {
		case *ssa.Global:
			if x.Pkg != nil && inRepo(x.Pkg.Pkg) {
				return x
			}
			return nil
		case *ssa.FieldAddr:
			v = x.X
		case *ssa.IndexAddr:
			v = x.X
		case *ssa.UnOp:
			if x.Op != token.MUL {
				return nil
			}
			v = x.X
		default:
			return nil
		}
	}
	return nil
}

func consensusFn(e *Engine, fn *ssa.Function) bool {
	if fn.Pkg == nil || !inRepo(fn.Pkg.Pkg) || len(fn.Blocks) == 0 {
		return false
	}
	path := fn.Pkg.Pkg.Path()
	for _, skip := range []string{"/testutil", "/client/cli", "/api/", "/simapp", "/e2e"} {
		if strings.Contains(path+"/", skip+"/") || strings.HasSuffix(path, skip) {
			return false
		}
	}
	file := e.prog.Fset.Position(fn.Pos()).Filename
	if fn.Pos() == token.NoPos && fn.Parent() != nil {
		file = e.prog.Fset.Position(fn.Parent().Pos()).Filename
	}
	if strings.HasSuffix(file, "_test.go") || strings.HasSuffix(file, ".pulsar.go") || strings.HasSuffix(file, ".pb.gw.go") || strings.HasSuffix(file, ".pb.go") {
		return false
	}
	if fn.Synthetic != "" && fn.Pos() == token.NoPos {
		return false // wrappers and thunks: their targets are scanned
	}
	return true
}

func hookC19(cr *checkRun) {
	e := cr.e
	var fns []*ssa.Function
	for _, fn := range e.allFns {
		if consensusFn(e, fn) {
			fns = append(fns, fn)
		}
	}
	sort.Slice(fns, func(i, j int) bool { return fns[i].String() < fns[j].String() })
	nFns, nInstr, nFmt := 0, 0, 0
	for _, fn := range fns {
		nFns++
		var problems []string
		add := func(pos token.Pos, f string, a ...interface{}) {
			problems = append(problems, fmt.Sprintf("%s: %s", shortPos(e, pos), fmt.Sprintf(f, a...)))
		}
		for _, b := range fn.Blocks {
			for _, ins := range b.Instrs {
				nInstr++
				switch x := ins.(type) {
				case *ssa.Range:
					if _, isMap := types.Unalias(x.X.Type()).Underlying().(*types.Map); isMap {
						if why := e.orderSensitiveRange(fn, x); why != "" {
							add(x.Pos(), "range over a map (%s) whose iteration order can be observed (%s): the order is randomised per run", x.X.Type(), why)
						}
					}
				case *ssa.Store:
					if g := globalRoot(x.Addr); g != nil && fn.Name() != "init" && !strings.HasPrefix(fn.Name(), "init#") {
						add(x.Pos(), "store to package-level variable %s outside init: process-local state that later results can depend on (not part of the chain state a replay starts from)", g.Name())
					}
				case *ssa.MapUpdate:
					if g := globalRoot(x.Map); g != nil && fn.Name() != "init" && !strings.HasPrefix(fn.Name(), "init#") {
						add(x.Pos(), "update of package-level map %s outside init: process-local state that later results can depend on", g.Name())
					}
				case *ssa.Go:
					add(x.Pos(), "go statement")
				case *ssa.Select:
					add(x.Pos(), "select statement")
				case *ssa.Send:
					add(x.Pos(), "channel send")
				case *ssa.MakeChan:
					add(x.Pos(), "channel creation")
				case *ssa.Convert:
					from, to := types.Unalias(x.X.Type()).Underlying(), types.Unalias(x.Type()).Underlying()
					if isUnsafePtr(from) || isUnsafePtr(to) {
						add(x.Pos(), "conversion through unsafe.Pointer")
					}
				case ssa.CallInstruction:
					c := x.Common()
					if c.IsInvoke() {
						continue
					}
					callee := c.StaticCallee()
					if callee == nil {
						continue
					}
					name := callee.String()
					if o := callee.Origin(); o != nil {
						name = o.String()
					}
					for _, pm := range processLocalCalls {
						if strings.HasPrefix(name, pm) {
							add(ins.Pos(), "call to %s: process-local mutable state (memo, pool, atomic) - what it returns depends on what this process handled before, not on the chain state", name)
						}
					}
					for _, nd := range nondetCalls {
						if name == nd || (strings.HasSuffix(nd, ".") && strings.HasPrefix(name, nd)) {
							add(ins.Pos(), "call to %s (clock, randomness, environment, runtime or unordered enumeration)", name)
						}
					}
					if fi, ok := formatFns[name]; ok {
						nFmt++
						e.checkFormat(fn, c, fi, add, ins.Pos())
					} else if printFns[name] {
						nFmt++
						for _, av := range variadicArgs(c) {
							if r := addressFree(av.typ, 0, map[types.Type]bool{}); r != "" && !av.fromRecover {
								add(ins.Pos(), "%s prints %s: %s", name, av.typ, r)
							}
						}
					}
				}
			}
		}
		name := shortFn(fn) + "#determinism"
		if len(problems) == 0 {
			cr.extraObl = append(cr.extraObl, &Obligation{Name: name, Kind: "determinism", Status: "discharged", Solver: "ssa-scan", Pos: shortPos(e, fn.Pos()),
				Clause: "every instruction of " + fn.Name() + " is a deterministic function of its operands (no map range, clock, randomness, concurrency, address formatting)"})
		} else {
			cr.extraObl = append(cr.extraObl, &Obligation{Name: name, Kind: "determinism", Status: "failed", Solver: "ssa-scan", Pos: shortPos(e, fn.Pos()),
				Clause: "every instruction of " + fn.Name() + " is a deterministic function of its operands", Model: strings.Join(problems, "\n")})
		}
	}
	// long-lived objects (the components and controllers, one instance per process) must not carry state that
	// changes after construction: a memo or cache in one of their fields is process-local state like a package-level
	// variable (the same scan protects the object invariants in the panic-freedom runs)
	if bad, n := e.typeInvScan(); len(bad) > 0 {
		cr.extraObl = append(cr.extraObl, &Obligation{Name: "components#immutable", Kind: "determinism", Status: "failed", Solver: "ssa-scan", Clause: "components and controllers hold no state that changes after construction", Model: strings.Join(bad, "\n")})
	} else if n > 0 {
		cr.extraObl = append(cr.extraObl, &Obligation{Name: "components#immutable", Kind: "determinism", Status: "discharged", Solver: "ssa-scan", Clause: fmt.Sprintf("%d component and controller types: allocated in their constructors only, no field stored and no field-held map updated elsewhere", n)})
	}
	// generated marshalling code is not scanned; the one thing in it that is order dependent is the wire
	// order of map fields, so the message types with map fields are enumerated and must be query responses only
	var mapMsgs, bad []string
	for _, sp := range e.ssaPkgs {
		if sp == nil || !inRepo(sp.Pkg) {
			continue
		}
		for _, m := range sp.Members {
			tn, ok := m.(*ssa.Type)
			if !ok {
				continue
			}
			if !strings.HasSuffix(e.prog.Fset.Position(tn.Pos()).Filename, ".pb.go") {
				continue
			}
			st, ok := tn.Type().Underlying().(*types.Struct)
			if !ok {
				continue
			}
			for i := 0; i < st.NumFields(); i++ {
				if _, isMap := types.Unalias(st.Field(i).Type()).Underlying().(*types.Map); isMap {
					mapMsgs = append(mapMsgs, tn.Name())
					if !(strings.HasPrefix(tn.Name(), "Query") && strings.HasSuffix(tn.Name(), "Response")) {
						bad = append(bad, sp.Pkg.Path()+"."+tn.Name()+"."+st.Field(i).Name())
					}
				}
			}
		}
	}
	sort.Strings(mapMsgs)
	o := &Obligation{Name: "generated-messages#no-map-fields-outside-query-responses", Kind: "determinism", Solver: "ssa-scan", Status: "discharged",
		Clause: "protobuf messages with map fields (whose generated wire order follows Go's map iteration) are gRPC query responses only, never state, events, packets or acknowledgements; found: " + strings.Join(mapMsgs, ", ")}
	if len(bad) > 0 {
		o.Status = "failed"
		o.Model = "map fields in messages that are not query responses: " + strings.Join(bad, ", ")
	}
	cr.extraObl = append(cr.extraObl, o)
	cr.notes = append(cr.notes, fmt.Sprintf("determinism scan: %d in-repo functions (generated gateway/pulsar code, CLI, test utilities excluded), %d instructions, %d formatting calls inspected", nFns, nInstr, nFmt))
	cr.notes = append(cr.notes, "ASSUMED (outside the scan): external packages are deterministic - SDK/ibc-go/bridge keepers, collections iterate in key order, the text of errors they return contains no addresses or unordered data; the Go runtime's panic messages recovered in JSONParser.Parse contain no addresses")
	cr.scanOnly = true
}

func isUnsafePtr(t types.Type) bool {
	b, ok := t.(*types.Basic)
	return ok && b.Kind() == types.UnsafePointer
}

func shortPos(e *Engine, p token.Pos) string {
	if p == token.NoPos {
		return ""
	}
	pos := e.prog.Fset.Position(p)
	f := pos.Filename
	if i := strings.Index(f, "/repo/"); i >= 0 {
		f = f[i+6:]
	}
	if e.repo != "" && strings.HasPrefix(pos.Filename, e.repo+"/") {
		f = pos.Filename[len(e.repo)+1:]
	}
	return fmt.Sprintf("%s:%d", f, pos.Line)
}

type fmtArg struct {
	typ         types.Type
	fromRecover bool
}

// variadicArgs returns the static types of the values passed as the variadic ...any argument.
func variadicArgs(c *ssa.CallCommon) []fmtArg {
	if len(c.Args) == 0 {
		return nil
	}
	last := c.Args[len(c.Args)-1]
	sl, ok := last.(*ssa.Slice)
	if !ok {
		if k, ok := last.(*ssa.Const); ok && k.IsNil() {
			return nil
		}
		return []fmtArg{{typ: last.Type()}} // forwarded slice: element types unknown
	}
	alloc, ok := sl.X.(*ssa.Alloc)
	if !ok {
		return []fmtArg{{typ: last.Type()}}
	}
	byIndex := map[int64]fmtArg{}
	max := int64(-1)
	for _, ref := range *alloc.Referrers() {
		ia, ok := ref.(*ssa.IndexAddr)
		if !ok {
			continue
		}
		k, ok := ia.Index.(*ssa.Const)
		if !ok {
			continue
		}
		idx, _ := constant.Int64Val(k.Value)
		for _, r2 := range *ia.Referrers() {
			st, ok := r2.(*ssa.Store)
			if !ok {
				continue
			}
			a := fmtArg{typ: st.Val.Type()}
			if mi, ok := st.Val.(*ssa.MakeInterface); ok {
				a.typ = mi.X.Type()
			} else if ci, ok := st.Val.(*ssa.ChangeInterface); ok {
				a.typ = ci.X.Type()
			} else if call, ok := st.Val.(*ssa.Call); ok {
				if b, ok := call.Call.Value.(*ssa.Builtin); ok && b.Name() == "recover" {
					a.fromRecover = true
				}
			}
			byIndex[idx] = a
			if idx > max {
				max = idx
			}
		}
	}
	var out []fmtArg
	for i := int64(0); i <= max; i++ {
		out = append(out, byIndex[i])
	}
	return out
}

func (e *Engine) checkFormat(fn *ssa.Function, c *ssa.CallCommon, fi int, add func(token.Pos, string, ...interface{}), pos token.Pos) {
	args := c.Args
	if fi >= len(args) {
		return
	}
	k, ok := args[fi].(*ssa.Const)
	if !ok || k.Value == nil || k.Value.Kind() != constant.String {
		add(pos, "format string is not a constant")
		return
	}
	format := constant.StringVal(k.Value)
	vargs := variadicArgs(c)
	ai := 0
	for i := 0; i < len(format); i++ {
		if format[i] != '%' {
			continue
		}
		i++
		for i < len(format) && strings.ContainsRune("+-# 0123456789.[]*", rune(format[i])) {
			if format[i] == '*' {
				ai++
			}
			i++
		}
		if i >= len(format) {
			break
		}
		verb := format[i]
		if verb == '%' {
			continue
		}
		if ai >= len(vargs) {
			ai++
			continue
		}
		a := vargs[ai]
		ai++
		if a.typ == nil || a.fromRecover {
			continue
		}
		switch verb {
		case 'p':
			add(pos, "%%p prints an address")
		case 'T':
		default:
			// fmt calls Error()/String() only for the verbs that are valid for strings (%v %s %q %x %X); with
			// any other verb (%d, %t, ...) the operand is formatted from its raw representation, so a struct
			// that wraps a pointer (math.Int wraps an unexported *big.Int) prints an address
			noMethods := !strings.ContainsRune("vsqxX", rune(verb))
			if r := addressFree2(a.typ, 0, map[types.Type]bool{}, noMethods); r != "" {
				add(pos, "%%%c of %s: %s", verb, a.typ, r)
			}
		}
	}
}

var (
	errorIface    = types.Universe.Lookup("error").Type().Underlying().(*types.Interface)
	stringerIface = types.NewInterfaceType([]*types.Func{types.NewFunc(token.NoPos, nil, "String",
		types.NewSignatureType(nil, nil, nil, nil, types.NewTuple(types.NewVar(token.NoPos, nil, "", types.Typ[types.String])), false))}, nil).Complete()
)

// addressFree returns "" when formatting a value of static type t with a value verb cannot print an
// address or unordered data, else the reason. depth 0 is the operand itself.
func addressFree(t types.Type, depth int, seen map[types.Type]bool) string {
	return addressFree2(t, depth, seen, false)
}

// noMethods: the value is reached through an unexported struct field, where fmt cannot call
// Error()/String() (reflect cannot Interface() it) and prints the raw representation instead.
func addressFree2(t types.Type, depth int, seen map[types.Type]bool, noMethods bool) string {
	t = types.Unalias(t)
	if !noMethods && (types.Implements(t, errorIface) || types.Implements(t, stringerIface)) {
		return "" // printed through Error()/String(); in-repo methods are scanned themselves
	}
	if seen[t] {
		return ""
	}
	seen[t] = true
	switch u := t.Underlying().(type) {
	case *types.Basic:
		if u.Kind() == types.UnsafePointer || u.Kind() == types.Uintptr {
			return "an address-sized integer"
		}
		return ""
	case *types.Pointer:
		if depth == 0 {
			if _, isStruct := types.Unalias(u.Elem()).Underlying().(*types.Struct); isStruct {
				return addressFree2(u.Elem(), depth+1, seen, noMethods) // &{...}
			}
		}
		return "a pointer is printed as an address"
	case *types.Struct:
		for i := 0; i < u.NumFields(); i++ {
			if r := addressFree2(u.Field(i).Type(), depth+1, seen, noMethods || !u.Field(i).Exported()); r != "" {
				return "field " + u.Field(i).Name() + ": " + r
			}
		}
		return ""
	case *types.Slice:
		if b, ok := types.Unalias(u.Elem()).Underlying().(*types.Basic); ok && b.Kind() == types.Byte {
			return ""
		}
		return addressFree2(u.Elem(), depth+1, seen, noMethods)
	case *types.Array:
		return addressFree2(u.Elem(), depth+1, seen, noMethods)
	case *types.Map:
		if r := addressFree2(u.Key(), depth+1, seen, noMethods); r != "" {
			return r
		}
		return addressFree2(u.Elem(), depth+1, seen, noMethods) // fmt sorts map keys
	case *types.Interface:
		if u.NumMethods() == 0 {
			return "the operand is an empty interface: its dynamic type is not known to print without addresses"
		}
		return "" // a non-empty interface: the dynamic value formats through its own methods or fields (assumed address-free)
	case *types.Chan, *types.Signature:
		return "channels and functions are printed as addresses"
	}
	return ""
}

// orderSensitiveRange: a range over a map is harmless when nothing in the loop depends on the order of
// the iterations - here: the loop only compares, calls pure functions, and inserts into a map created in
// this function under the key of the current iteration (building a set/map from a map). Anything else
// (appending to a slice, building a string, returning from inside the loop, calling something with
// effects) can expose the order. Returns "" when the range is harmless.
func (e *Engine) orderSensitiveRange(fn *ssa.Function, rng *ssa.Range) string {
	// the loop: the innermost natural loop that contains the Next of this range
	var next *ssa.Next
	for _, ref := range *rng.Referrers() {
		if n, ok := ref.(*ssa.Next); ok {
			next = n
		}
	}
	if next == nil {
		return "no Next instruction found"
	}
	var loop *loopInfo
	for _, l := range findLoops(fn) {
		if l.blocks[next.Block()] && (loop == nil || len(l.blocks) < len(loop.blocks)) {
			loop = l
		}
	}
	if loop == nil {
		return "loop not recognised"
	}
	var key ssa.Value
	for _, ref := range *next.Referrers() {
		if ex, ok := ref.(*ssa.Extract); ok && ex.Index == 1 {
			key = ex
		}
	}
	for b := range loop.blocks {
		for _, ins := range b.Instrs {
			switch x := ins.(type) {
			case *ssa.Next, *ssa.Extract, *ssa.BinOp, *ssa.If, *ssa.Jump, *ssa.Phi, *ssa.DebugRef, *ssa.UnOp, *ssa.Convert, *ssa.ChangeType, *ssa.Lookup:
			case *ssa.MapUpdate:
				if _, local := x.Map.(*ssa.MakeMap); !local {
					return "updates a map that is not local to the function"
				}
				if key == nil || x.Key != key {
					if cv, ok := x.Key.(*ssa.Convert); !ok || cv.X != key {
						return "inserts under a key other than the current one"
					}
				}
			case *ssa.Call:
				if _, isBuiltin := x.Call.Value.(*ssa.Builtin); isBuiltin {
					if x.Call.Value.Name() == "len" {
						continue
					}
					return "calls builtin " + x.Call.Value.Name() + " inside the loop"
				}
				callee := x.Call.StaticCallee()
				if callee == nil {
					return "dynamic call inside the loop"
				}
				if r := e.impure(callee, map[*ssa.Function]bool{}); r != "" {
					return "calls " + callee.Name() + " inside the loop (" + r + ")"
				}
			case *ssa.Return:
				return "returns from inside the loop"
			default:
				return fmt.Sprintf("%T inside the loop", ins)
			}
		}
	}
	// values defined in the loop must not be used after it (other than through the local map)
	for b := range loop.blocks {
		for _, ins := range b.Instrs {
			v, ok := ins.(ssa.Value)
			if !ok || v.Referrers() == nil {
				continue
			}
			for _, ref := range *v.Referrers() {
				if !loop.blocks[ref.Block()] {
					if _, isDbg := ref.(*ssa.DebugRef); !isDbg {
						return "a value computed in the loop is used after it"
					}
				}
			}
		}
	}
	return ""
}
