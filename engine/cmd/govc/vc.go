package main

// Verification-condition context: symbolic state, heaps, fresh names, obligations.

import (
	"fmt"
	"go/types"
	"os"
	"sort"
	"strings"

	"golang.org/x/tools/go/ssa"
)

type Val struct {
	t   string
	tup []Val
	ip  *IPtr
	av  *arrView // pointer obtained by converting a slice to an array pointer
}

type arrView struct {
	slice string
	n     int64
	es    string
}

const (
	rootField = iota
	rootElem
	rootCell
)

type pathStep struct {
	si    *structInfo
	field int
}

// IPtr is an interior pointer: a location (heap root + accessor path).
type IPtr struct {
	root  int
	heap  string     // heap key
	vsort string     // sort of the value stored at the root
	ref   string     // object reference term
	idx   string     // element index (rootElem)
	rootT types.Type // Go type of root value
	path  []pathStep
}

type State struct {
	heaps  map[string]string
	ghosts map[string]string
	alloc  string
}

func (s *State) clone() *State {
	n := &State{heaps: make(map[string]string, len(s.heaps)), ghosts: make(map[string]string, len(s.ghosts)), alloc: s.alloc}
	for k, v := range s.heaps {
		n.heaps[k] = v
	}
	for k, v := range s.ghosts {
		n.ghosts[k] = v
	}
	return n
}

type Obligation struct {
	Name    string
	Kind    string // pre post safety loop-init loop-step unwind frame cover schema lemma
	Func    string
	Pos     string
	Clause  string
	Goal    string // formula to prove (guard included)
	NAssert int
	Cover   bool
	Tags    []string
	// results
	Status    string // discharged, failed, unknown
	Solver    string
	Seconds   float64
	Model     string
	Query     string
	known     string
	candidate string
	replay    *replayResult
	// case split: conditions (return sites) whose disjunction is the guard; when the obligation as a whole
	// is not decided it is proved once per case (each case adds its condition as a hypothesis)
	Cases []string
}

type defEntry struct {
	name string
	at   int
	text string
}

type writeRec struct {
	heap string
	ref  string
}

type VC struct {
	eng       *Engine
	slice     map[string]bool
	safety    bool
	decls     []string
	declared  map[string]bool
	asserts   []string
	obls      []*Obligation
	heapSorts map[string]string
	nfresh    int
	fnName    string
	notes     []string
	oblCount  map[string]int
	entry     *State

	usedSpecs    map[string]bool
	havocked     map[string]bool
	inlinedFns   map[string]bool
	unsupported  map[string]bool
	boxUsed      map[string]bool
	quiet        int          // >0: speculative run, do not record obligations
	exemptC03    int          // >0: executing below a declared error swallow
	swallowStack [][]string   // declared swallows of the frames on the inlining stack
	orphans      []*orphanAnn // loop contracts whose loop left its function, waiting for adoption
	nextCallPos  string       // position of the call being inlined (key of loop-contract adoption)
	globals      []string     // unconditional facts about uninterpreted symbols (never rolled back)
	rawDecls     []string
	declIndex    map[string]int
	defCache     map[string]defEntry
	factCache    map[string]int
	writeLog     []writeRec
	indexTerms   []string      // non-constant slice index terms of the executed code (instantiation hints)
	readLogs     []*[]readRec  // active macro expansions: which state components their bodies read
	targetFn     *ssa.Function // the function under verification, its parameter values and merged results (replay)
	paramVals    []Val
	resultVals   []Val
	calleeSl     map[string]bool
	retConds     []string       // reach conditions of the return sites of the function under verification (depth 0)
	catchStack   []*catchCtx    // functions with a deferred recover() that are being executed (innermost last)
	recoverVals  []string       // what recover() returns in the deferred closure being executed
	nextFreeVars []Val          // bindings of the closure about to be executed
	allocNames   map[string]int // allocation constants -> position in decls
	curFn        []*ssa.Function
	maxDepth     int
}

func (e *Engine) newVC(fnName string, slice map[string]bool, safety bool) *VC {
	return &VC{
		eng: e, slice: slice, safety: safety, declared: map[string]bool{}, heapSorts: map[string]string{},
		fnName: fnName, oblCount: map[string]int{}, usedSpecs: map[string]bool{}, havocked: map[string]bool{},
		inlinedFns: map[string]bool{}, unsupported: map[string]bool{}, boxUsed: map[string]bool{}, maxDepth: 8,
	}
}

func (vc *VC) freshName(hint string) string {
	vc.nfresh++
	h := sanitize(hint)
	if len(h) > 40 {
		h = h[:40]
	}
	return fmt.Sprintf("%s!%d", h, vc.nfresh)
}

func (vc *VC) declare(name, sort string) {
	if vc.declared[name] {
		return
	}
	vc.declared[name] = true
	if vc.declIndex == nil {
		vc.declIndex = map[string]int{}
	}
	vc.declIndex[name] = len(vc.decls)
	vc.decls = append(vc.decls, fmt.Sprintf("(declare-const %s %s)", name, sort))
}

// newRef allocates a fresh object reference.
func (vc *VC) newRef(st *State, hint string) string {
	ref := vc.define(hint, sortInt, "(+ "+st.alloc+" 1)")
	st.alloc = ref
	vc.trackAlloc(ref)
	if vc.allocNames == nil {
		vc.allocNames = map[string]int{}
	}
	vc.allocNames[ref] = vc.declIndex[ref]
	return ref
}

func (vc *VC) logWrite(heap, ref string) {
	vc.writeLog = append(vc.writeLog, writeRec{heap, ref})
}

func (vc *VC) fresh(hint, sort string) string {
	n := vc.freshName(hint)
	vc.declare(n, sort)
	return n
}

// define introduces a new constant equal to term.
func (vc *VC) define(hint, sort, term string) string {
	if isAtom(term) {
		return term
	}
	// hash-consing: the same term (same heap versions included) gets the same name
	if d, ok := vc.defCache[term]; ok && d.at < len(vc.asserts) && vc.asserts[d.at] == d.text {
		return d.name
	}
	n := vc.fresh(hint, sort)
	text := fmt.Sprintf("(= %s %s)", n, term)
	if vc.defCache == nil {
		vc.defCache = map[string]defEntry{}
	}
	vc.defCache[term] = defEntry{name: n, at: len(vc.asserts), text: text}
	vc.asserts = append(vc.asserts, text)
	return n
}

func isAtom(t string) bool {
	return !strings.ContainsAny(t, "( ")
}

func (vc *VC) assume(guard, fact string) {
	if fact == "true" {
		return
	}
	if guard == "true" || guard == "" {
		vc.asserts = append(vc.asserts, fact)
	} else {
		vc.asserts = append(vc.asserts, fmt.Sprintf("(=> %s %s)", guard, fact))
	}
}

func (vc *VC) global(fact string) {
	vc.globals = append(vc.globals, fact)
}

func (vc *VC) declareRaw(name, decl string) {
	if vc.declared[name] {
		return
	}
	vc.declared[name] = true
	vc.rawDecls = append(vc.rawDecls, decl)
}

// assumeOnce adds an unconditional fact unless the identical fact is already among the assumptions.
func (vc *VC) assumeOnce(fact string) {
	if at, ok := vc.factCache[fact]; ok && at < len(vc.asserts) && vc.asserts[at] == fact {
		return
	}
	if vc.factCache == nil {
		vc.factCache = map[string]int{}
	}
	vc.factCache[fact] = len(vc.asserts)
	vc.asserts = append(vc.asserts, fact)
}

func (vc *VC) note(f string, a ...interface{}) {
	s := fmt.Sprintf(f, a...)
	for _, n := range vc.notes {
		if n == s {
			return
		}
	}
	vc.notes = append(vc.notes, s)
}

func (vc *VC) oblige(kind, base, pos, clause, guard, fact string, tags []string) *Obligation {
	if vc.quiet > 0 {
		return nil
	}
	key := base
	n := vc.oblCount[key]
	vc.oblCount[key] = n + 1
	name := fmt.Sprintf("%s#%d", base, n)
	goal := fact
	if guard != "true" && guard != "" {
		goal = fmt.Sprintf("(=> %s %s)", guard, fact)
	}
	o := &Obligation{Name: name, Kind: kind, Func: vc.fnName, Pos: pos, Clause: clause, Goal: goal, NAssert: len(vc.asserts), Tags: tags}
	vc.obls = append(vc.obls, o)
	return o
}

func (vc *VC) cover(base, pos, clause, cond string) {
	if vc.quiet > 0 {
		return
	}
	n := vc.oblCount[base]
	vc.oblCount[base] = n + 1
	o := &Obligation{Name: fmt.Sprintf("%s#%d", base, n), Kind: "cover", Func: vc.fnName, Pos: pos, Clause: clause, Goal: cond, NAssert: len(vc.asserts), Cover: true}
	vc.obls = append(vc.obls, o)
}

// ---------------------------------------------------------------- heaps

func heapKeyField(si *structInfo, i int) string { return "H!" + si.sort + "!" + si.fields[i].name }
func heapKeyElem(sort string) string            { return "E!" + sanitize(sort) }
func heapKeyCell(sort string) string            { return "C!" + sanitize(sort) }

// noteIndexTerm remembers a symbolic slice index of the code under verification. Universally quantified
// contract formulas over an integer are additionally instantiated at these terms: e-matching cannot
// match an index pattern (+ offset j) against a ground index that arithmetic normalisation has
// flattened (offset + i + 1), so the instances the proofs need most are supplied explicitly. Adding
// instances of a universal formula next to it preserves equivalence.
func (vc *VC) noteIndexTerm(t string) {
	if isAtom(t) && !strings.ContainsAny(t, "!~") {
		return // numeric literal
	}
	if strings.Contains(t, "!q") {
		return
	}
	for _, x := range vc.indexTerms {
		if x == t {
			return
		}
	}
	vc.indexTerms = append(vc.indexTerms, t)
}

type readRec struct{ tag, term, sort string }

func (vc *VC) logRead(tag, term, sort string) {
	for _, l := range vc.readLogs {
		*l = append(*l, readRec{tag, term, sort})
	}
}

func (vc *VC) heapGet(st *State, key, sort string) string {
	if t, ok := st.heaps[key]; ok {
		if len(vc.readLogs) > 0 {
			vc.logRead("H:"+key, t, vc.heapSorts[key])
		}
		return t
	}
	if len(vc.readLogs) > 0 {
		defer func() { vc.logRead("H:"+key, key+"~0", sort) }()
	}
	vc.heapSorts[key] = sort
	name := key + "~0"
	vc.declare(name, sort)
	// all states of this VC descend from the entry state, so the entry version is shared
	st.heaps[key] = name
	if vc.entry != nil {
		if _, ok := vc.entry.heaps[key]; !ok {
			vc.entry.heaps[key] = name
		}
	}
	return name
}

func (vc *VC) heapSet(st *State, key, sort, term string) {
	vc.heapGet(st, key, sort) // make sure the entry version exists
	for _, c := range vc.catchStack {
		c.heaps[key] = true
	}
	n := vc.fresh(key+"~", sort)
	vc.asserts = append(vc.asserts, fmt.Sprintf("(= %s %s)", n, term))
	st.heaps[key] = n
}

func (vc *VC) heapHavoc(st *State, key string) {
	sort := vc.heapSorts[key]
	if sort == "" {
		return
	}
	vc.heapGet(st, key, sort)
	vc.logWrite(key, "*")
	for _, c := range vc.catchStack {
		c.heaps[key] = true
	}
	st.heaps[key] = vc.fresh(key+"~h", sort)
}

func (vc *VC) ghostGet(st *State, name string) string {
	if t, ok := st.ghosts[name]; ok {
		if len(vc.readLogs) > 0 {
			vc.logRead("G:"+name, t, vc.eng.specs.ghostSort[name])
		}
		return t
	}
	if len(vc.readLogs) > 0 {
		defer func() { vc.logRead("G:"+name, "G!"+sanitize(name)+"~0", vc.eng.specs.ghostSort[name]) }()
	}
	sort := vc.eng.specs.ghostSort[name]
	n := "G!" + sanitize(name) + "~0"
	vc.declare(n, sort)
	st.ghosts[name] = n
	if vc.entry != nil {
		if _, ok := vc.entry.ghosts[name]; !ok {
			vc.entry.ghosts[name] = n
		}
	}
	return n
}

func (vc *VC) ghostHavoc(st *State, name string) string {
	vc.ghostGet(st, name)
	for _, c := range vc.catchStack {
		c.ghosts[name] = true
	}
	sort := vc.eng.specs.ghostSort[name]
	n := vc.fresh("G!"+sanitize(name)+"~", sort)
	st.ghosts[name] = n
	return n
}

func (vc *VC) ghostSet(st *State, name, term string) {
	vc.ghostGet(st, name)
	for _, c := range vc.catchStack {
		c.ghosts[name] = true
	}
	sort := vc.eng.specs.ghostSort[name]
	n := vc.fresh("G!"+sanitize(name)+"~", sort)
	vc.asserts = append(vc.asserts, fmt.Sprintf("(= %s %s)", n, term))
	st.ghosts[name] = n
}

// field heap read of a first-class struct pointer
func (vc *VC) readField(st *State, ref string, si *structInfo, i int) string {
	h := vc.heapGet(st, heapKeyField(si, i), "(Array Int "+si.fields[i].sort+")")
	return "(select " + h + " " + ref + ")"
}

func (vc *VC) writeField(st *State, ref string, si *structInfo, i int, v string) {
	key := heapKeyField(si, i)
	vc.logWrite(key, ref)
	sort := "(Array Int " + si.fields[i].sort + ")"
	h := vc.heapGet(st, key, sort)
	vc.heapSet(st, key, sort, "(store "+h+" "+ref+" "+v+")")
}

func (vc *VC) loadStruct(st *State, ref string, si *structInfo) string {
	if len(si.fields) == 0 {
		return ctor(si)
	}
	parts := make([]string, len(si.fields))
	for i := range si.fields {
		parts[i] = vc.readField(st, ref, si, i)
	}
	return "(" + ctor(si) + " " + strings.Join(parts, " ") + ")"
}

func (vc *VC) storeStruct(st *State, ref string, si *structInfo, v string) {
	for i := range si.fields {
		vc.writeField(st, ref, si, i, "("+accessor(si, i)+" "+v+")")
	}
}

func (vc *VC) rootRead(st *State, ip *IPtr) string {
	switch ip.root {
	case rootField, rootCell:
		h := vc.heapGet(st, ip.heap, "(Array Int "+ip.vsort+")")
		return "(select " + h + " " + ip.ref + ")"
	case rootElem:
		h := vc.heapGet(st, ip.heap, "(Array Int (Array Int "+ip.vsort+"))")
		return "(select (select " + h + " " + ip.ref + ") " + ip.idx + ")"
	}
	panic("bad root")
}

func (vc *VC) rootWrite(st *State, ip *IPtr, v string) {
	vc.logWrite(ip.heap, ip.ref)
	switch ip.root {
	case rootField, rootCell:
		sort := "(Array Int " + ip.vsort + ")"
		h := vc.heapGet(st, ip.heap, sort)
		vc.heapSet(st, ip.heap, sort, "(store "+h+" "+ip.ref+" "+v+")")
	case rootElem:
		sort := "(Array Int (Array Int " + ip.vsort + "))"
		h := vc.heapGet(st, ip.heap, sort)
		vc.heapSet(st, ip.heap, sort, "(store "+h+" "+ip.ref+" (store (select "+h+" "+ip.ref+") "+ip.idx+" "+v+"))")
	}
}

func (vc *VC) readLoc(st *State, ip *IPtr) string {
	v := vc.rootRead(st, ip)
	for _, s := range ip.path {
		v = "(" + accessor(s.si, s.field) + " " + v + ")"
	}
	return v
}

func updateField(si *structInfo, field int, rec, v string) string {
	parts := make([]string, len(si.fields))
	for i := range si.fields {
		if i == field {
			parts[i] = v
		} else {
			parts[i] = "(" + accessor(si, i) + " " + rec + ")"
		}
	}
	return "(" + ctor(si) + " " + strings.Join(parts, " ") + ")"
}

func (vc *VC) writeLoc(st *State, ip *IPtr, v string) {
	if len(ip.path) == 0 {
		vc.rootWrite(st, ip, v)
		return
	}
	root := vc.rootRead(st, ip)
	// build nested update
	recs := make([]string, len(ip.path))
	cur := root
	for i, s := range ip.path {
		recs[i] = cur
		cur = "(" + accessor(s.si, s.field) + " " + cur + ")"
	}
	nv := v
	for i := len(ip.path) - 1; i >= 0; i-- {
		nv = updateField(ip.path[i].si, ip.path[i].field, recs[i], nv)
	}
	vc.rootWrite(st, ip, nv)
}

// type of the value an IPtr points to
func (ip *IPtr) targetType() types.Type {
	t := ip.rootT
	for _, s := range ip.path {
		t = s.si.fields[s.field].typ
	}
	return t
}

// ---------------------------------------------------------------- type facts

// typeFacts returns facts known about a value of Go type t (ranges, non-negative lengths).
func (vc *VC) typeFacts(term string, t types.Type, alloc string) []string {
	t = types.Unalias(t)
	var out []string
	if isMathInt(t) {
		// A-INT256: every math.Int the code sees is nil or within 256 bits (all constructors enforce it)
		return []string{"(or (mi!nil " + term + ") (and (< (- " + pow2(256) + ") (mi!val " + term + ")) (< (mi!val " + term + ") " + pow2(256) + ")))"}
	}
	if isAccAddress(t) {
		return nil
	}
	if lo, hi, ok := intRange(t); ok {
		out = append(out, "(<= "+lo+" "+term+")", "(<= "+term+" "+hi+")")
		return out
	}
	switch u := t.Underlying().(type) {
	case *types.Slice:
		out = append(out, "(>= (slen "+term+") 0)", "(<= (slen "+term+") 9223372036854775807)", "(>= (soff "+term+") 0)", "(>= (sref "+term+") 0)", "(=> (= (sref "+term+") 0) (= (slen "+term+") 0))")
		if alloc != "" {
			out = append(out, "(<= (sref "+term+") "+alloc+")")
		}
	case *types.Pointer, *types.Map:
		out = append(out, "(>= "+term+" 0)")
		if alloc != "" {
			out = append(out, "(<= "+term+" "+alloc+")")
		}
	case *types.Interface:
		out = append(out, "(>= (itag "+term+") 0)")
		if alloc != "" {
			out = append(out, "(<= (iref "+term+") "+alloc+")")
		}
		_ = u
	case *types.Struct:
		// a struct value: facts about its fields (one level of nesting is enough for message structs)
		if si := vc.eng.types.structInfoOf(t); si != nil && !strings.Contains(term, "(T_") {
			for i, f := range si.fields {
				if _, nested := types.Unalias(f.typ).Underlying().(*types.Struct); nested && !isMathInt(f.typ) {
					continue
				}
				out = append(out, vc.typeFacts("("+accessor(si, i)+" "+term+")", f.typ, alloc)...)
			}
		}
	}
	return out
}

func (vc *VC) assumeType(guard, term string, t types.Type, alloc string) {
	for _, f := range vc.typeFacts(term, t, alloc) {
		vc.assumeOnce(f)
	}
	_ = guard
}

// ---------------------------------------------------------------- query assembly

const prelude = `(declare-datatype MInt ((mkMInt (mi!nil Bool) (mi!val Int))))
(declare-datatype Iface ((mkIface (itag Int) (iref Int))))
(declare-datatype Slice ((mkSlice (sref Int) (soff Int) (slen Int))))
(declare-sort Addr 0)
(declare-const addr!nil Addr)
(define-fun tdiv ((a Int) (b Int)) Int (ite (>= a 0) (ite (> b 0) (div a b) (- (div a (- b)))) (ite (> b 0) (- (div (- a) b)) (div (- a) (- b)))))
(define-fun tmod ((a Int) (b Int)) Int (- a (* b (tdiv a b))))
(declare-fun mulI (Int Int) Int)
(declare-fun gid (Int) Int)
(declare-sort BytesV 0)
(declare-fun bytesval ((Array Int Int) Int Int) BytesV)
(declare-fun bytes2str (BytesV) String)
(declare-fun str2bytes (String) (Array Int Int))
`

func (vc *VC) queryFor(o *Obligation) string {
	// body first: declarations, assumptions, goal
	var body strings.Builder
	for _, d := range vc.eng.verdictDecls {
		body.WriteString(d)
		body.WriteByte('\n')
	}
	for _, d := range vc.rawDecls {
		body.WriteString(d)
		body.WriteByte('\n')
	}
	for _, d := range vc.decls {
		body.WriteString(d)
		body.WriteByte('\n')
	}
	// cover obligations ask for satisfiability; quantified assumptions make solvers answer
	// "unknown", so a cover checks that the quantifier-free part of the assumptions is consistent.
	skipQ := func(a string) bool {
		return o.Cover && (strings.Contains(a, "(forall ") || strings.Contains(a, "(exists "))
	}
	var facts strings.Builder
	asserts, goal := vc.asserts[:o.NAssert], o.Goal
	if !o.Cover && os.Getenv("VERIF_NOQINST") == "" {
		// universal goals: explicit witnesses and hypothesis instances at them (qinst.go)
		if decls, as2, g2, ok := vc.refineForGoal(asserts, goal); ok {
			for _, d := range decls {
				body.WriteString(d)
				body.WriteByte('\n')
			}
			asserts, goal = as2, g2
		}
	}
	for _, a := range asserts {
		if skipQ(a) {
			continue
		}
		facts.WriteString("(assert ")
		facts.WriteString(a)
		facts.WriteString(")\n")
	}
	if o.Cover {
		fmt.Fprintf(&facts, "(assert %s)\n", goal)
	} else {
		fmt.Fprintf(&facts, "(assert (not %s))\n", goal)
	}
	// symbols used by the facts and the goal: axioms (preamble assertions, global facts) are included
	// only when they share a declared symbol with them - unrelated quantified axioms slow the solvers
	used := map[string]bool{}
	addSyms := func(text string) {
		for _, tok := range strings.FieldsFunc(text, func(c rune) bool { return c == '(' || c == ')' || c == ' ' || c == '\n' }) {
			used[tok] = true
		}
	}
	addSyms(facts.String())
	relevant := func(ax string) bool {
		for _, tok := range strings.FieldsFunc(ax, func(c rune) bool { return c == '(' || c == ')' || c == ' ' }) {
			if _, declared := vc.eng.specs.funSigs[tok]; declared && used[tok] {
				return true
			}
			if vc.declared[tok] && used[tok] {
				return true
			}
		}
		return false
	}
	var globals []string
	// two rounds so that axioms pulled in by the first round can pull in related ones
	for round := 0; round < 2; round++ {
		globals = globals[:0]
		for _, a := range vc.globals {
			if skipQ(a) {
				continue
			}
			if strings.Contains(a, "(forall ") && !relevant(a) {
				continue
			}
			globals = append(globals, a)
		}
		for _, g := range globals {
			addSyms(g)
		}
	}
	var b strings.Builder
	b.WriteString("(set-option :produce-models true)\n(set-logic ALL)\n")
	b.WriteString(prelude)
	b.WriteString(vc.eng.types.declarations())
	var pre []string
	for round := 0; round < 2; round++ {
		pre = pre[:0]
		for _, l := range vc.eng.specs.preamble {
			if !vc.eng.types.sortsKnown(l) {
				continue // mentions a struct sort that does not occur in this verification
			}
			if strings.HasPrefix(l, "(assert ") {
				if skipQ(l) || !relevant(l) {
					continue
				}
			}
			pre = append(pre, l)
		}
		for _, l := range pre {
			if strings.HasPrefix(l, "(assert ") {
				addSyms(l)
			}
		}
	}
	for _, l := range pre {
		b.WriteString(l)
		b.WriteByte('\n')
	}
	// tags
	var tags []string
	for _, c := range vc.eng.types.tags {
		tags = append(tags, c)
	}
	sort.Strings(tags)
	for i, c := range tags {
		fmt.Fprintf(&b, "(define-fun %s () Int %d)\n", c, i+1)
	}
	var boxes []string
	for s := range vc.boxUsed {
		boxes = append(boxes, s)
	}
	sort.Strings(boxes)
	for _, s := range boxes {
		bs := sanitize(s)
		fmt.Fprintf(&b, "(declare-fun box!%s (%s) Int)\n(declare-fun unbox!%s (Int) %s)\n", bs, s, bs, s)
	}
	b.WriteString(body.String())
	for _, a := range globals {
		b.WriteString("(assert ")
		b.WriteString(a)
		b.WriteString(")\n")
	}
	b.WriteString(facts.String())
	b.WriteString("(check-sat)\n")
	return b.String()
}
