package main

// Contract expression language: lexer, parser, AST.

import (
	"fmt"
	"strconv"
	"strings"
)

type Expr interface{}

type (
	EInt   struct{ V string }
	EStr   struct{ V string }
	EBool  struct{ V bool }
	ENil   struct{}
	EIdent struct{ Name string }
	ESel   struct {
		X    Expr
		Name string
	}
	EIndex struct{ X, I Expr }
	ECall  struct {
		Fn   string
		Args []Expr
	}
	EUn struct {
		Op string
		X  Expr
	}
	EBin struct {
		Op   string
		L, R Expr
	}
	QVar struct {
		Name, Sort string
	}
	EQuant struct {
		Forall   bool
		Vars     []QVar
		Body     Expr
		Triggers []Expr // optional: forall k int trigger(f(k), g(k)) :: body
	}
	EOld struct{ X Expr }
)

type etoken struct {
	kind string // id, int, str, op, eof
	val  string
	pos  int
}

func lexExpr(src string) ([]etoken, error) {
	var toks []etoken
	i := 0
	for i < len(src) {
		c := src[i]
		switch {
		case c == ' ' || c == '\t' || c == '\n' || c == '\r':
			i++
		case c == '/' && i+1 < len(src) && src[i+1] == '/':
			// comment to end of line
			for i < len(src) && src[i] != '\n' {
				i++
			}
		case isIdentStart(c):
			j := i
			for j < len(src) && isIdentPart(src[j]) {
				j++
			}
			toks = append(toks, etoken{"id", src[i:j], i})
			i = j
		case c >= '0' && c <= '9':
			j := i
			for j < len(src) && (src[j] >= '0' && src[j] <= '9' || src[j] == '_') {
				j++
			}
			toks = append(toks, etoken{"int", strings.ReplaceAll(src[i:j], "_", ""), i})
			i = j
		case c == '"':
			j := i + 1
			for j < len(src) && src[j] != '"' {
				if src[j] == '\\' {
					j++
				}
				j++
			}
			if j >= len(src) {
				return nil, fmt.Errorf("unterminated string at %d", i)
			}
			s, err := strconv.Unquote(src[i : j+1])
			if err != nil {
				return nil, fmt.Errorf("bad string %s: %v", src[i:j+1], err)
			}
			toks = append(toks, etoken{"str", s, i})
			i = j + 1
		default:
			ops := []string{"<==>", "==>", "::", "==", "!=", "<=", ">=", "&&", "||", "(", ")", "[", "]", ".", ",", "+", "-", "*", "/", "%", "<", ">", "!", "^", "?", ":"}
			matched := false
			for _, op := range ops {
				if strings.HasPrefix(src[i:], op) {
					toks = append(toks, etoken{"op", op, i})
					i += len(op)
					matched = true
					break
				}
			}
			if !matched {
				return nil, fmt.Errorf("unexpected character %q at %d in %q", c, i, src)
			}
		}
	}
	toks = append(toks, etoken{"eof", "", len(src)})
	return toks, nil
}

func isIdentStart(c byte) bool {
	return c == '_' || c >= 'a' && c <= 'z' || c >= 'A' && c <= 'Z'
}
func isIdentPart(c byte) bool {
	return isIdentStart(c) || c >= '0' && c <= '9'
}

type exprParser struct {
	toks []etoken
	p    int
	src  string
}

func parseExpr(src string) (e Expr, err error) {
	toks, err := lexExpr(src)
	if err != nil {
		return nil, err
	}
	ps := &exprParser{toks: toks, src: src}
	defer func() {
		if r := recover(); r != nil {
			if pe, ok := r.(parseErr); ok {
				err = fmt.Errorf("%s (in %q)", string(pe), src)
				return
			}
			panic(r)
		}
	}()
	e = ps.expr()
	if ps.peek().kind != "eof" {
		ps.fail("trailing tokens starting at %q", ps.peek().val)
	}
	return e, nil
}

type parseErr string

func (ps *exprParser) fail(f string, a ...interface{}) {
	panic(parseErr(fmt.Sprintf(f, a...)))
}
func (ps *exprParser) peek() etoken { return ps.toks[ps.p] }
func (ps *exprParser) next() etoken { t := ps.toks[ps.p]; ps.p++; return t }
func (ps *exprParser) isOp(v string) bool {
	t := ps.peek()
	return t.kind == "op" && t.val == v
}
func (ps *exprParser) accept(v string) bool {
	if ps.isOp(v) {
		ps.p++
		return true
	}
	return false
}
func (ps *exprParser) expect(v string) {
	if !ps.accept(v) {
		ps.fail("expected %q, got %q", v, ps.peek().val)
	}
}

func (ps *exprParser) expr() Expr {
	t := ps.peek()
	if t.kind == "id" && (t.val == "forall" || t.val == "exists") {
		ps.next()
		q := &EQuant{Forall: t.val == "forall"}
		for {
			n := ps.next()
			if n.kind != "id" {
				ps.fail("expected bound variable name")
			}
			s := ps.sortName()
			q.Vars = append(q.Vars, QVar{n.val, s})
			if !ps.accept(",") {
				break
			}
		}
		if t := ps.peek(); t.kind == "id" && t.val == "trigger" {
			ps.next()
			ps.expect("(")
			for {
				q.Triggers = append(q.Triggers, ps.expr())
				if !ps.accept(",") {
					break
				}
			}
			ps.expect(")")
		}
		ps.expect("::")
		q.Body = ps.expr()
		return q
	}
	return ps.impl()
}

func (ps *exprParser) sortName() string {
	t := ps.next()
	if t.kind == "id" {
		return t.val
	}
	if t.kind == "op" && t.val == "(" {
		// parenthesised SMT sort, e.g. (Array Int Int)
		depth := 1
		s := "("
		for depth > 0 {
			n := ps.next()
			if n.kind == "eof" {
				ps.fail("unterminated sort")
			}
			if n.val == "(" {
				depth++
			}
			if n.val == ")" {
				depth--
			}
			if s != "(" && n.val != ")" && !strings.HasSuffix(s, "(") {
				s += " "
			}
			s += n.val
		}
		return s
	}
	ps.fail("expected sort, got %q", t.val)
	return ""
}

func (ps *exprParser) impl() Expr {
	l := ps.iff()
	if ps.accept("==>") {
		r := ps.exprNoQuantOrQuant()
		return &EBin{"==>", l, r}
	}
	return l
}

func (ps *exprParser) exprNoQuantOrQuant() Expr {
	t := ps.peek()
	if t.kind == "id" && (t.val == "forall" || t.val == "exists") {
		return ps.expr()
	}
	return ps.impl()
}

func (ps *exprParser) iff() Expr {
	l := ps.or()
	for ps.accept("<==>") {
		r := ps.or()
		l = &EBin{"<==>", l, r}
	}
	return l
}
func (ps *exprParser) or() Expr {
	l := ps.and()
	for ps.accept("||") {
		r := ps.and()
		l = &EBin{"||", l, r}
	}
	return l
}
func (ps *exprParser) and() Expr {
	l := ps.cmp()
	for ps.accept("&&") {
		r := ps.cmp()
		l = &EBin{"&&", l, r}
	}
	return l
}
func (ps *exprParser) cmp() Expr {
	l := ps.add()
	for _, op := range []string{"==", "!=", "<=", ">=", "<", ">"} {
		if ps.accept(op) {
			r := ps.add()
			return &EBin{op, l, r}
		}
	}
	return l
}
func (ps *exprParser) add() Expr {
	l := ps.mul()
	for {
		if ps.accept("+") {
			l = &EBin{"+", l, ps.mul()}
		} else if ps.accept("-") {
			l = &EBin{"-", l, ps.mul()}
		} else {
			return l
		}
	}
}
func (ps *exprParser) mul() Expr {
	l := ps.unary()
	for {
		if ps.accept("*") {
			l = &EBin{"*", l, ps.unary()}
		} else if ps.accept("/") {
			l = &EBin{"/", l, ps.unary()}
		} else if ps.accept("%") {
			l = &EBin{"%", l, ps.unary()}
		} else {
			return l
		}
	}
}
func (ps *exprParser) unary() Expr {
	if ps.accept("!") {
		return &EUn{"!", ps.unary()}
	}
	if ps.accept("-") {
		return &EUn{"-", ps.unary()}
	}
	return ps.pow()
}
func (ps *exprParser) pow() Expr {
	b := ps.postfix()
	if ps.accept("^") {
		e := ps.next()
		bi, ok := b.(*EInt)
		if e.kind != "int" || !ok || bi.V != "2" {
			ps.fail("only 2^N literals are supported")
		}
		n, _ := strconv.Atoi(e.val)
		return &EInt{pow2(n)}
	}
	return b
}
func (ps *exprParser) postfix() Expr {
	x := ps.primary()
	for {
		switch {
		case ps.accept("."):
			n := ps.next()
			if n.kind != "id" {
				ps.fail("expected field name after '.'")
			}
			x = &ESel{x, n.val}
		case ps.accept("["):
			i := ps.expr()
			ps.expect("]")
			x = &EIndex{x, i}
		case ps.isOp("("):
			id, ok := x.(*EIdent)
			if !ok {
				// pkg.Func(...) form: allow selector call names
				if sel, ok2 := x.(*ESel); ok2 {
					if pid, ok3 := sel.X.(*EIdent); ok3 {
						ps.next()
						args := ps.args()
						x = &ECall{pid.Name + "." + sel.Name, args}
						continue
					}
				}
				ps.fail("call of non-identifier")
			}
			ps.next()
			args := ps.args()
			if id.Name == "old" {
				if len(args) != 1 {
					ps.fail("old takes one argument")
				}
				x = &EOld{args[0]}
			} else {
				x = &ECall{id.Name, args}
			}
		default:
			return x
		}
	}
}
func (ps *exprParser) args() []Expr {
	var args []Expr
	if ps.accept(")") {
		return args
	}
	for {
		args = append(args, ps.expr())
		if ps.accept(")") {
			return args
		}
		ps.expect(",")
	}
}
func (ps *exprParser) primary() Expr {
	t := ps.next()
	switch t.kind {
	case "int":
		return &EInt{t.val}
	case "str":
		return &EStr{t.val}
	case "id":
		if t.val == "forall" || t.val == "exists" {
			ps.p--
			return ps.expr()
		}
		switch t.val {
		case "true":
			return &EBool{true}
		case "false":
			return &EBool{false}
		case "nil":
			return &ENil{}
		}
		return &EIdent{t.val}
	case "op":
		if t.val == "(" {
			e := ps.expr()
			ps.expect(")")
			return e
		}
	}
	ps.fail("unexpected token %q", t.val)
	return nil
}

// substitute identifiers (macro expansion)
func substExpr(e Expr, sub map[string]Expr) Expr {
	switch x := e.(type) {
	case *EIdent:
		if r, ok := sub[x.Name]; ok {
			return r
		}
		return x
	case *ESel:
		return &ESel{substExpr(x.X, sub), x.Name}
	case *EIndex:
		return &EIndex{substExpr(x.X, sub), substExpr(x.I, sub)}
	case *ECall:
		args := make([]Expr, len(x.Args))
		for i, a := range x.Args {
			args[i] = substExpr(a, sub)
		}
		return &ECall{x.Fn, args}
	case *EUn:
		return &EUn{x.Op, substExpr(x.X, sub)}
	case *EBin:
		return &EBin{x.Op, substExpr(x.L, sub), substExpr(x.R, sub)}
	case *EQuant:
		inner := map[string]Expr{}
		for k, v := range sub {
			inner[k] = v
		}
		for _, v := range x.Vars {
			delete(inner, v.Name)
		}
		var trg []Expr
		for _, t := range x.Triggers {
			trg = append(trg, substExpr(t, inner))
		}
		return &EQuant{x.Forall, x.Vars, substExpr(x.Body, inner), trg}
	case *EOld:
		return &EOld{substExpr(x.X, sub)}
	}
	return e
}

func exprString(e Expr) string {
	switch x := e.(type) {
	case *EInt:
		return x.V
	case *EStr:
		return strconv.Quote(x.V)
	case *EBool:
		return fmt.Sprint(x.V)
	case *ENil:
		return "nil"
	case *EIdent:
		return x.Name
	case *ESel:
		return exprString(x.X) + "." + x.Name
	case *EIndex:
		return exprString(x.X) + "[" + exprString(x.I) + "]"
	case *ECall:
		var a []string
		for _, y := range x.Args {
			a = append(a, exprString(y))
		}
		return x.Fn + "(" + strings.Join(a, ", ") + ")"
	case *EUn:
		return x.Op + exprString(x.X)
	case *EBin:
		return "(" + exprString(x.L) + " " + x.Op + " " + exprString(x.R) + ")"
	case *EQuant:
		q := "exists"
		if x.Forall {
			q = "forall"
		}
		var vs []string
		for _, v := range x.Vars {
			vs = append(vs, v.Name+" "+v.Sort)
		}
		return q + " " + strings.Join(vs, ", ") + " :: " + exprString(x.Body)
	case *EOld:
		return "old(" + exprString(x.X) + ")"
	}
	return "?"
}
