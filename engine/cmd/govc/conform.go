package main

// Conformance of the trusted specification library with the real dependencies (`govc conform`).
//
// A trusted spec is an assumption. For the spec'd functions of other modules whose parameters and results are
// plain values (integers, strings, booleans, math.Int; a math.Int receiver included) the assumption can at
// least be TESTED: the real function is called on a few hundred generated inputs from a test injected with
// `go test -overlay`, and for every observed run the spec is evaluated by the solver with inputs and observed
// results pinned:
//   - the call returned: every `ensures` clause must hold (pins and not-clause unsatisfiable);
//   - the call panicked: some `panics-unless` condition must be false on the input (pins and all conditions
//     satisfiable would mean the engine assumes "no panic" where the real code panics: an UNSOUND spec);
//   - the call returned although a `panics-unless` condition is false: the spec is stricter than the code
//     (possible false alarms), reported as imprecise.
// Clauses over uninterpreted vocabulary (okInt, parseInt, validDenom, ...) define that vocabulary rather than
// state a testable fact; for them only a refutation that survives (unsat = holds) counts, anything else is
// inconclusive. This is a bounded check of assumptions, never a proof, and is reported as such.

import (
	"encoding/json"
	"fmt"
	"go/types"
	"math/big"
	"math/rand"
	"os"
	"os/exec"
	"path/filepath"
	"sort"
	"strconv"
	"strings"
	"time"

	"golang.org/x/tools/go/ssa"
)

// inVal is one generated argument: how to write it in Go and how to pin an SMT term to it.
type inVal struct {
	goLit string
	pin   func(term string) string
	show  string
	strs  []string // Go expressions of the strings inside this value (vocabulary facts are computed at them)
	ints  []string // Go expressions of the integers inside it
}

func bigPow(b int64, e int) *big.Int {
	return new(big.Int).Exp(big.NewInt(b), big.NewInt(int64(e)), nil)
}

var stringPool = []string{"", "a", "b", "ab", "abc", "A", "0", "1", "-1", "+1", "007", "10", "-0", " 1", "1 ", "0x10", "1e3",
	"4294967295", "4294967296", "2147483647", "2147483648", "-2147483648", "-2147483649", "9223372036854775807", "9223372036854775808",
	"18446744073709551615", "18446744073709551616", "12345678901234567890123456789012345678901234567890123456789012345678901234567890",
	"115792089237316195423570985008687907853269984665640564039457584007913129639935", "115792089237316195423570985008687907853269984665640564039457584007913129639936",
	"channel-0", "channel-", "channel-01", "channel-18446744073709551615", "channel-18446744073709551616", "Channel-1", "channel-1 ",
	"1:a:b", "4:a:b", "4:x", "2:7", "3:1:2", "4:", "/", "a/b", "a/b/c", "transfer/channel-0/uusdc", "xtransfer/channel-0/uusdc", "transfer/channel-0/", "uusdc", ":", "1:a", "1:", ":a", "a:b:c", "é", "a\x00b"}

func intCandidates(t types.Type) []*big.Int {
	bits, signed, _ := intBits(t)
	var out []*big.Int
	add := func(n *big.Int) {
		if signed {
			if n.Cmp(new(big.Int).Neg(bigPow(2, bits-1))) < 0 || n.Cmp(bigPow(2, bits-1)) >= 0 {
				return
			}
		} else if n.Sign() < 0 || n.Cmp(bigPow(2, bits)) >= 0 {
			return
		}
		out = append(out, n)
	}
	for _, k := range []int64{0, 1, -1, 2, 3, 7, 8, 10, 16, 32, 36, 37, 64, 100, 127, 128, 255, 256, 10000, -2, -10} {
		add(big.NewInt(k))
	}
	for _, e := range []int{31, 32, 63, 64} {
		add(bigPow(2, e))
		add(new(big.Int).Sub(bigPow(2, e), big.NewInt(1)))
		add(new(big.Int).Neg(bigPow(2, e)))
	}
	return out
}

// enumValues: the declared constants of a named integer type (plus the neighbours of their range)
func enumValues(t types.Type) []*big.Int {
	n, ok := types.Unalias(t).(*types.Named)
	if !ok || n.Obj().Pkg() == nil {
		return nil
	}
	var out []*big.Int
	var lo, hi *big.Int
	sc := n.Obj().Pkg().Scope()
	for _, name := range sc.Names() {
		c, ok := sc.Lookup(name).(*types.Const)
		if !ok || !types.Identical(c.Type(), t) {
			continue
		}
		v, ok := new(big.Int).SetString(c.Val().ExactString(), 10)
		if !ok {
			continue
		}
		out = append(out, v)
		if lo == nil || v.Cmp(lo) < 0 {
			lo = v
		}
		if hi == nil || v.Cmp(hi) > 0 {
			hi = v
		}
	}
	if len(out) < 2 || len(out) > 40 {
		return nil
	}
	return append(out, new(big.Int).Sub(lo, big.NewInt(1)), new(big.Int).Add(hi, big.NewInt(1)))
}

func mintCandidates() []*big.Int {
	var out []*big.Int
	out = append(out, nil) // the nil Int
	for _, k := range []int64{0, 1, -1, 2, 3, 7, 10, 9999, 10000, -2, -7} {
		out = append(out, big.NewInt(k))
	}
	for _, e := range []int{63, 64, 128, 255, 256} {
		out = append(out, bigPow(2, e), new(big.Int).Sub(bigPow(2, e), big.NewInt(1)), new(big.Int).Neg(bigPow(2, e)), new(big.Int).Neg(new(big.Int).Sub(bigPow(2, e), big.NewInt(1))))
	}
	return out
}

func goTypeName(t types.Type, pkg *types.Package, imports map[string]string) string {
	n, ok := types.Unalias(t).(*types.Named)
	if !ok {
		return types.TypeString(t, nil)
	}
	if n.Obj().Pkg() == nil || n.Obj().Pkg() == pkg {
		return n.Obj().Name()
	}
	if _, ok := imports[n.Obj().Pkg().Path()]; !ok {
		imports[n.Obj().Pkg().Path()] = "p_" + sanitize(n.Obj().Pkg().Name())
	}
	return imports[n.Obj().Pkg().Path()] + "." + n.Obj().Name()
}

func mintVal(n *big.Int, imports map[string]string) inVal {
	if _, ok := imports["cosmossdk.io/math"]; !ok {
		imports["cosmossdk.io/math"] = "p_sdkmath"
	}
	if _, ok := imports["math/big"]; !ok {
		imports["math/big"] = "p_big"
	}
	sm, bg := imports["cosmossdk.io/math"], imports["math/big"]
	if n == nil {
		return inVal{goLit: sm + ".Int{}", pin: func(t string) string { return "(assert (mi!nil " + t + "))" }, show: "nil Int"}
	}
	s := n.String()
	return inVal{goLit: fmt.Sprintf(`%s.NewIntFromBigIntMut(func() *%s.Int { x, _ := new(%s.Int).SetString("%s", 10); return x }())`, sm, bg, bg, s),
		pin: func(t string) string { return "(assert (= " + t + " (mkMInt false " + smtInt(s) + ")))" }, show: s}
}

// candidates for one parameter type; extraStrings/extraInts are seeds (constants of the function, model values)
func candidatesFor(t types.Type, pkg *types.Package, imports map[string]string, extraStrings []string, extraInts []*big.Int) []inVal {
	var out []inVal
	if isMathInt(t) {
		for _, n := range append(mintCandidates(), extraInts...) {
			if n != nil && n.BitLen() > 256 {
				continue // NewIntFromBigInt itself panics above 256 bits; not a value of the type
			}
			out = append(out, mintVal(n, imports))
		}
		return out
	}
	if _, st, ok := plainStruct(t); ok && curReg != nil {
		si := curReg.structInfoOf(t)
		if si == nil || len(si.fields) != st.NumFields() {
			return nil
		}
		var fc [][]inVal
		for i := 0; i < st.NumFields(); i++ {
			c := candidatesFor(st.Field(i).Type(), pkg, imports, extraStrings, extraInts)
			if len(c) == 0 {
				return nil
			}
			fc = append(fc, c)
		}
		tn := goTypeName(t, pkg, imports)
		rng := rand.New(rand.NewSource(7))
		seen := map[string]bool{}
		for tries := 0; len(out) < 60 && tries < 600; tries++ {
			var lits, shows []string
			var pinsF []func(string) string
			for i := range fc {
				var v inVal
				if tries < 14 {
					v = fc[i][(tries+3*i)%len(fc[i])] // the first candidates of every field (nil, 0, 1, "", ...) are always tried
				} else {
					v = fc[i][rng.Intn(len(fc[i]))]
				}
				lits = append(lits, st.Field(i).Name()+": "+v.goLit)
				shows = append(shows, st.Field(i).Name()+": "+v.show)
				acc := accessor(si, i)
				vp := v.pin
				pinsF = append(pinsF, func(term string) string { return vp("(" + acc + " " + term + ")") })
			}
			lit := tn + "{" + strings.Join(lits, ", ") + "}"
			if seen[lit] {
				continue
			}
			seen[lit] = true
			iv := inVal{goLit: lit, show: "{" + strings.Join(shows, ", ") + "}", pin: func(term string) string {
				var ps []string
				for _, f := range pinsF {
					ps = append(ps, f(term))
				}
				return strings.Join(ps, "\n")
			}}
			for i := 0; i < st.NumFields(); i++ {
				if b, ok := types.Unalias(st.Field(i).Type()).Underlying().(*types.Basic); ok && !isMathInt(st.Field(i).Type()) {
					if b.Info()&types.IsString != 0 {
						iv.strs = append(iv.strs, "string(("+lit+")."+st.Field(i).Name()+")")
					} else if b.Info()&types.IsInteger != 0 {
						iv.ints = append(iv.ints, "fmt.Sprint(("+lit+")."+st.Field(i).Name()+")")
					}
				}
			}
			out = append(out, iv)
		}
		return out
	}
	b, ok := types.Unalias(t).Underlying().(*types.Basic)
	if !ok {
		return nil
	}
	tn := goTypeName(t, pkg, imports)
	switch {
	case b.Info()&types.IsString != 0:
		seen := map[string]bool{}
		for _, s := range append(append([]string{}, extraStrings...), stringPool...) {
			if seen[s] {
				continue
			}
			seen[s] = true
			s := s
			out = append(out, inVal{goLit: tn + "(" + strconv.Quote(s) + ")", pin: func(t string) string { return "(assert (= " + t + " " + smtString(s) + "))" }, show: strconv.Quote(s)})
		}
	case b.Info()&types.IsBoolean != 0:
		for _, v := range []string{"false", "true"} {
			v := v
			out = append(out, inVal{goLit: tn + "(" + v + ")", pin: func(t string) string { return "(assert (= " + t + " " + v + "))" }, show: v})
		}
	case b.Info()&types.IsInteger != 0:
		cands := intCandidates(t)
		if ev := enumValues(t); len(ev) > 0 {
			// an enumeration (named integer type with declared constants): its values, one below, one above
			cands = ev
		}
		bits, signed, _ := intBits(t)
		for _, n := range extraInts {
			if n == nil {
				continue
			}
			if signed && n.BitLen() < bits || !signed && n.Sign() >= 0 && n.BitLen() <= bits {
				cands = append(cands, n)
			}
		}
		for _, n := range cands {
			s := n.String()
			out = append(out, inVal{goLit: tn + "(" + s + ")", pin: func(t string) string { return "(assert (= " + t + " " + smtInt(s) + "))" }, show: s})
		}
	}
	return out
}

// genTuples: up to max argument tuples. Single-parameter functions get every candidate; otherwise a fixed-seed
// sample of the product, plus - for string parameters - structured tuples in which a later string is a prefix,
// suffix or infix of an earlier one (the cases prefix/cut/index functions distinguish).
func genTuples(ptypes []types.Type, pkg *types.Package, imports map[string]string, extraStrings []string, extraInts []*big.Int, max int) [][]inVal {
	var cands [][]inVal
	for _, t := range ptypes {
		c := candidatesFor(t, pkg, imports, extraStrings, extraInts)
		if len(c) == 0 {
			return nil
		}
		cands = append(cands, c)
	}
	if len(ptypes) == 0 {
		return [][]inVal{{}}
	}
	var out [][]inVal
	seen := map[string]bool{}
	add := func(tu []inVal) {
		k := ""
		for _, v := range tu {
			k += v.goLit + "\x00"
		}
		if !seen[k] && len(out) < max {
			seen[k] = true
			out = append(out, append([]inVal{}, tu...))
		}
	}
	total := 1
	for _, c := range cands {
		total *= len(c)
		if total > 4*max {
			break
		}
	}
	if total <= max {
		idx := make([]int, len(cands))
		for {
			tu := make([]inVal, len(cands))
			for i := range cands {
				tu[i] = cands[i][idx[i]]
			}
			add(tu)
			k := len(idx) - 1
			for k >= 0 {
				idx[k]++
				if idx[k] < len(cands[k]) {
					break
				}
				idx[k] = 0
				k--
			}
			if k < 0 {
				break
			}
		}
		return out
	}
	// structured string tuples
	var strIdx []int
	for i, t := range ptypes {
		if b, ok := types.Unalias(t).Underlying().(*types.Basic); ok && b.Info()&types.IsString != 0 {
			strIdx = append(strIdx, i)
		}
	}
	rng := rand.New(rand.NewSource(1))
	mkStr := func(i int, s string) inVal {
		tn := goTypeName(ptypes[i], pkg, imports)
		return inVal{goLit: tn + "(" + strconv.Quote(s) + ")", pin: func(t string) string { return "(assert (= " + t + " " + smtString(s) + "))" }, show: strconv.Quote(s)}
	}
	if len(strIdx) >= 2 {
		bases := append(append([]string{}, extraStrings...), "transfer/channel-0/uusdc", "a/b/c", "abcabc", "1:a:b", "channel-12", "x")
		for _, base := range bases {
			for _, part := range []string{"", base, base + "x"} {
				_ = part
			}
			var parts []string
			for i := 0; i <= len(base); i++ {
				parts = append(parts, base[:i], base[i:])
			}
			for i := 0; i < len(base); i++ {
				for j := i + 1; j <= len(base) && j <= i+3; j++ {
					parts = append(parts, base[i:j])
				}
			}
			parts = append(parts, base+"x", "x"+base, "/", ":")
			if len(strIdx) >= 3 {
				// consecutive segments of the pool strings as the second and third string (port/channel-like
				// pairs): the base may contain them at the front, inside, or not at all
				for _, t := range append(append([]string{}, bases...), "transfer/channel-0/uusdc", "xtransfer/channel-0/uusdc", "a/b/c") {
					for _, sep := range []string{"/", ":"} {
						segs := strings.Split(t, sep)
						for k := 0; k+1 < len(segs); k++ {
							for _, b0 := range []string{base, t, "x" + t, "y" + sep + t, t + sep + t} {
								tu := make([]inVal, len(cands))
								for i := range cands {
									tu[i] = cands[i][rng.Intn(len(cands[i]))]
								}
								tu[strIdx[0]] = mkStr(strIdx[0], b0)
								tu[strIdx[1]] = mkStr(strIdx[1], segs[k])
								tu[strIdx[2]] = mkStr(strIdx[2], segs[k+1])
								add(tu)
							}
						}
					}
				}
			}
			for _, p := range parts {
				tu := make([]inVal, len(cands))
				for i := range cands {
					tu[i] = cands[i][rng.Intn(len(cands[i]))]
				}
				tu[strIdx[0]] = mkStr(strIdx[0], base)
				tu[strIdx[1]] = mkStr(strIdx[1], p)
				add(tu)
				if len(strIdx) >= 3 {
					for _, p2 := range []string{"", p, "/", base} {
						tu2 := append([]inVal{}, tu...)
						tu2[strIdx[2]] = mkStr(strIdx[2], p2)
						add(tu2)
					}
				}
			}
		}
	}
	for tries := 0; len(out) < max && tries < 20*max; tries++ {
		tu := make([]inVal, len(cands))
		for i := range cands {
			tu[i] = cands[i][rng.Intn(len(cands[i]))]
		}
		add(tu)
	}
	return out
}

// recordExpr: a Go statement that stores the value of expr (of type t) into the map `out` under key
func recordExpr(key, expr string, t types.Type) string {
	switch {
	case types.Identical(t, types.Universe.Lookup("error").Type()):
		return fmt.Sprintf(`out["%s_nil"] = %s == nil; if %s != nil { out["%s_text"] = %s.Error() }`, key, expr, expr, key, expr)
	case isMathInt(t):
		return fmt.Sprintf(`out["%s_nil"] = %s.IsNil(); if !%s.IsNil() { out["%s"] = %s.String() }`, key, expr, expr, key, expr)
	}
	if _, st, ok := plainStruct(t); ok {
		var parts []string
		for i := 0; i < st.NumFields(); i++ {
			parts = append(parts, recordExpr(key+"."+st.Field(i).Name(), expr+"."+st.Field(i).Name(), st.Field(i).Type()))
		}
		return strings.Join(parts, "; ")
	}
	if b, ok := types.Unalias(t).Underlying().(*types.Basic); ok {
		switch {
		case b.Info()&types.IsInteger != 0:
			return fmt.Sprintf(`out["%s"] = fmt.Sprintf("%%d", %s)`, key, expr)
		case b.Info()&types.IsString != 0:
			return fmt.Sprintf(`out["%s"] = string(%s)`, key, expr)
		case b.Info()&types.IsBoolean != 0:
			return fmt.Sprintf(`out["%s"] = bool(%s)`, key, expr)
		}
	}
	return fmt.Sprintf(`_ = %s`, expr)
}

// recordStmts: Go statements that store the results r0, r1, ... of a call into the map `out`.
func recordStmts(sig *types.Signature) (lhs, record []string) {
	for i := 0; i < sig.Results().Len(); i++ {
		r := fmt.Sprintf("r%d", i)
		lhs = append(lhs, r)
		record = append(record, recordExpr(r, r, sig.Results().At(i).Type()))
	}
	return
}

// pinObserved: SMT assertions pinning term (of type t) to what was observed under key
func pinObserved(key, term string, t types.Type, obs map[string]interface{}) (pins []string, complete bool) {
	switch {
	case types.Identical(t, types.Universe.Lookup("error").Type()):
		if isNil, ok := obs[key+"_nil"].(bool); ok {
			if isNil {
				return []string{"(assert (= (itag " + term + ") 0))"}, true
			}
			return []string{"(assert (not (= (itag " + term + ") 0)))"}, true
		}
		return nil, false
	case isMathInt(t):
		if isNil, ok := obs[key+"_nil"].(bool); ok && isNil {
			return []string{"(assert (mi!nil " + term + "))"}, true
		} else if s, ok := obs[key].(string); ok {
			return []string{"(assert (= " + term + " (mkMInt false " + smtInt(s) + ")))"}, true
		}
		return nil, false
	}
	if _, st, ok := plainStruct(t); ok && curReg != nil {
		si := curReg.structInfoOf(t)
		if si == nil || len(si.fields) != st.NumFields() {
			return nil, false
		}
		complete = true
		for i := 0; i < st.NumFields(); i++ {
			p, ok := pinObserved(key+"."+st.Field(i).Name(), "("+accessor(si, i)+" "+term+")", st.Field(i).Type(), obs)
			pins = append(pins, p...)
			complete = complete && ok
		}
		return pins, complete
	}
	switch v := obs[key].(type) {
	case string:
		if b, ok := types.Unalias(t).Underlying().(*types.Basic); ok && b.Info()&types.IsInteger != 0 {
			return []string{"(assert (= " + term + " " + smtInt(v) + "))"}, true
		}
		return []string{"(assert (= " + term + " " + smtString(v) + "))"}, true
	case bool:
		return []string{fmt.Sprintf("(assert (= %s %v))", term, v)}, true
	}
	return nil, false
}

// resultPins: SMT assertions pinning the result terms to what was observed; complete is false when some
// result could not be pinned (a type the harness does not record).
func resultPins(sig *types.Signature, results []Val, obs map[string]interface{}) (pins []string, complete bool) {
	complete = true
	for k := 0; k < sig.Results().Len() && k < len(results); k++ {
		p, ok := pinObserved(fmt.Sprintf("r%d", k), results[k].t, sig.Results().At(k).Type(), obs)
		pins = append(pins, p...)
		complete = complete && ok
	}
	return
}

// runBatch calls `call(args)` for every tuple from a test injected into pkgDir (package pkgName) of the
// repository and returns what each call did.
func runBatch(repo, pkgDir, pkgName string, imports map[string]string, sig *types.Signature, callOf func(lits []string) string, tuples [][]inVal, what string) ([]map[string]interface{}, string, error) {
	lhs, record := recordStmts(sig)
	assign := ""
	if len(lhs) > 0 {
		assign = strings.Join(lhs, ", ") + " := "
	}
	var cases strings.Builder
	for _, tu := range tuples {
		var lits []string
		for _, v := range tu {
			lits = append(lits, v.goLit)
		}
		// ground facts of the uninterpreted parsing vocabulary at the concrete strings and integers of this
		// run (arguments before the call, so that they are there when it panics; results after it)
		var pre, post []string
		pi := 0
		if sig.Recv() != nil {
			pi = -1
		}
		for k := range tu {
			var pt types.Type
			if pi+k < 0 {
				pt = sig.Recv().Type()
			} else if pi+k < sig.Params().Len() {
				pt = sig.Params().At(pi + k).Type()
			}
			if pt == nil || isMathInt(pt) {
				continue
			}
			for _, e := range tu[k].strs {
				pre = append(pre, "govcFactsStr(out, "+e+")")
			}
			for _, e := range tu[k].ints {
				pre = append(pre, "govcFactsInt(out, "+e+")")
			}
			if b, ok := types.Unalias(pt).Underlying().(*types.Basic); ok {
				if b.Info()&types.IsString != 0 {
					pre = append(pre, "govcFactsStr(out, string("+lits[k]+"))")
				} else if b.Info()&types.IsInteger != 0 {
					pre = append(pre, "govcFactsInt(out, fmt.Sprint("+lits[k]+"))")
				}
			}
		}
		for k := 0; k < sig.Results().Len(); k++ {
			if _, st, ok := plainStruct(sig.Results().At(k).Type()); ok {
				for i := 0; i < st.NumFields(); i++ {
					if b, ok := types.Unalias(st.Field(i).Type()).Underlying().(*types.Basic); ok && !isMathInt(st.Field(i).Type()) {
						if b.Info()&types.IsString != 0 {
							post = append(post, fmt.Sprintf("govcFactsStr(out, string(r%d.%s))", k, st.Field(i).Name()))
						} else if b.Info()&types.IsInteger != 0 {
							post = append(post, fmt.Sprintf("govcFactsInt(out, fmt.Sprint(r%d.%s))", k, st.Field(i).Name()))
						}
					}
				}
				continue
			}
			if b, ok := types.Unalias(sig.Results().At(k).Type()).Underlying().(*types.Basic); ok {
				if b.Info()&types.IsString != 0 {
					post = append(post, fmt.Sprintf("govcFactsStr(out, string(r%d))", k))
				} else if b.Info()&types.IsInteger != 0 {
					post = append(post, fmt.Sprintf("govcFactsInt(out, fmt.Sprint(r%d))", k))
				}
			}
		}
		fmt.Fprintf(&cases, "\t\tfunc(out map[string]interface{}) {\n\t\t\t%s\n\t\t\t%s%s\n\t\t\t%s\n\t\t\t%s\n\t\t},\n", strings.Join(pre, "; "), assign, callOf(lits), strings.Join(record, "\n\t\t\t"), strings.Join(post, "; "))
	}
	var imp []string
	for path, alias := range imports {
		imp = append(imp, fmt.Sprintf("\t%s %q", alias, path))
	}
	sort.Strings(imp)
	src := fmt.Sprintf(`package %s

import (
	"encoding/json"
	"fmt"
	"os"
	"testing"
	v_big "math/big"
	v_math "cosmossdk.io/math"
	v_sdk "github.com/cosmos/cosmos-sdk/types"
	v_chan "github.com/cosmos/ibc-go/v8/modules/core/04-channel/types"
%s
)

// the uninterpreted parsing vocabulary of the specification library, evaluated by what it stands for
func govcSmtStr(s string) string {
	b := []byte{'"'}
	for i := 0; i < len(s); i++ {
		c := s[i]
		switch {
		case c == '"':
			b = append(b, '"', '"')
		case c == '\\':
			b = append(b, []byte("\\u{5c}")...)
		case c >= 32 && c < 127:
			b = append(b, c)
		default:
			b = append(b, []byte(fmt.Sprintf("\\u{%%x}", c))...)
		}
	}
	return string(append(b, '"'))
}

func govcSmtInt(n *v_big.Int) string {
	if n.Sign() < 0 {
		return "(- " + new(v_big.Int).Neg(n).String() + ")"
	}
	return n.String()
}

func govcAdd(out map[string]interface{}, f string) {
	l, _ := out["facts"].([]string)
	out["facts"] = append(l, f)
}

func govcFactsInt(out map[string]interface{}, dec string) {
	n, ok := new(v_big.Int).SetString(dec, 10)
	if !ok {
		return
	}
	govcAdd(out, "(assert (= (dec "+govcSmtInt(n)+") "+govcSmtStr(n.String())+"))")
	govcAdd(out, "(assert (= (intstr "+govcSmtInt(n)+") "+govcSmtStr(n.String())+"))")
}

func govcFactsStr(out map[string]interface{}, s string) {
	q := govcSmtStr(s)
	digits := func(t string) bool {
		if t == "" {
			return false
		}
		for i := 0; i < len(t); i++ {
			if t[i] < '0' || t[i] > '9' {
				return false
			}
		}
		return true
	}
	u := digits(s)
	govcAdd(out, fmt.Sprintf("(assert (= (atouOK %%s) %%v))", q, u))
	if u {
		n, _ := new(v_big.Int).SetString(s, 10)
		govcAdd(out, "(assert (= (atouVal "+q+") "+govcSmtInt(n)+"))")
		govcFactsInt(out, n.String())
	}
	t := s
	if len(t) > 0 && (t[0] == '+' || t[0] == '-') {
		t = t[1:]
	}
	i := digits(t)
	govcAdd(out, fmt.Sprintf("(assert (= (atoiOK %%s) %%v))", q, i))
	if i {
		n, _ := new(v_big.Int).SetString(s, 10)
		govcAdd(out, "(assert (= (atoiVal "+q+") "+govcSmtInt(n)+"))")
		govcFactsInt(out, n.String())
	}
	func() {
		defer func() { _ = recover() }()
		v, ok := v_math.NewIntFromString(s)
		govcAdd(out, fmt.Sprintf("(assert (= (okInt %%s) %%v))", q, ok))
		if ok {
			govcAdd(out, "(assert (= (parseInt "+q+") "+govcSmtInt(v.BigInt())+"))")
		}
	}()
	func() {
		defer func() { _ = recover() }()
		govcAdd(out, fmt.Sprintf("(assert (= (validDenom %%s) %%v))", q, v_sdk.ValidateDenom(s) == nil))
	}()
	func() {
		defer func() { _ = recover() }()
		govcAdd(out, fmt.Sprintf("(assert (= (isChannelID %%s) %%v))", q, v_chan.IsValidChannelID(s)))
	}()
}

// generated by govc: %s
func TestGovcBatch(t *testing.T) {
	cases := []func(out map[string]interface{}){
%s	}
	var all []map[string]interface{}
	for _, c := range cases {
		out := map[string]interface{}{}
		func() {
			defer func() {
				if r := recover(); r != nil {
					out["panic"] = fmt.Sprint(r)
				}
			}()
			c(out)
		}()
		all = append(all, out)
	}
	b, _ := json.Marshal(all)
	_ = os.WriteFile(os.Getenv("GOVC_REPLAY_OUT"), b, 0o644)
	_ = fmt.Sprint()
}
`, pkgName, strings.Join(imp, "\n"), what, cases.String())
	dir, err := os.MkdirTemp("/var/tmp", "govc-batch-")
	if err != nil {
		return nil, src, err
	}
	defer os.RemoveAll(dir)
	testFile := filepath.Join(dir, "zz_govc_batch_test.go")
	os.WriteFile(testFile, []byte(src), 0o644)
	ov, _ := json.Marshal(map[string]interface{}{"Replace": map[string]string{filepath.Join(pkgDir, "zz_govc_batch_test.go"): testFile}})
	ovFile := filepath.Join(dir, "overlay.json")
	os.WriteFile(ovFile, ov, 0o644)
	outFile := filepath.Join(dir, "out.json")
	rel, _ := filepath.Rel(repo, pkgDir)
	cmd := exec.Command("go", "test", "-overlay", ovFile, "-vet=off", "-count=1", "-timeout", "120s", "-run", "^TestGovcBatch$", "./"+rel+"/")
	cmd.Dir = repo
	cmd.Env = append(os.Environ(), "GOFLAGS=", "GOVC_REPLAY_OUT="+outFile)
	done := make(chan error, 1)
	var out []byte
	go func() { var err error; out, err = cmd.CombinedOutput(); done <- err }()
	select {
	case <-done:
	case <-time.After(240 * time.Second):
		if cmd.Process != nil {
			cmd.Process.Kill()
		}
		return nil, src, fmt.Errorf("the batch test did not finish")
	}
	data, err := os.ReadFile(outFile)
	if err != nil {
		return nil, src, fmt.Errorf("the batch test could not be built or run: %s", tail(string(out), 600))
	}
	var res []map[string]interface{}
	if err := json.Unmarshal(data, &res); err != nil || len(res) != len(tuples) {
		return nil, src, fmt.Errorf("unexpected batch output")
	}
	return res, src, nil
}

// multiCheck runs one solver process over prefix + for each block: (push) block (check-sat) (pop); returns one
// answer per block.
func multiCheck(prefix string, blocks []string, timeoutS int) []string {
	return multiCheckBudget(prefix, blocks, timeoutS, timeoutS*len(blocks)+30)
}

// dropQuantified removes quantified assertions from a query prefix. With fewer assumptions an "unsat" is only
// harder to get, so a contradiction found without them stands with them; the checks become fast.
func dropQuantified(prefix string) string {
	var b strings.Builder
	for _, l := range strings.Split(prefix, "\n") {
		if strings.HasPrefix(l, "(assert ") && (strings.Contains(l, "(forall ") || strings.Contains(l, "(exists ")) {
			// the axioms of the evaluable parsing vocabulary stay (dec/atoi round trips): they are what turns the
			// ground facts of the harness into contradictions; everything else quantified goes
			if !(mentions(l, evaluableVocab) && !strings.Contains(l, "!q") && !strings.Contains(l, "~") && !strings.Contains(l, "!f")) {
				continue
			}
		}
		b.WriteString(l)
		b.WriteByte('\n')
	}
	return b.String()
}

// multiCheckBudget: as multiCheck, with a wall-clock budget for the whole run; blocks not reached are "unknown".
func multiCheckBudget(prefix string, blocks []string, timeoutS, budgetS int) []string {
	var b strings.Builder
	b.WriteString(strings.Replace(prefix, "(declare-fun mulI (Int Int) Int)", "(define-fun mulI ((a Int) (b Int)) Int (* a b))", 1))
	for k, bl := range blocks {
		b.WriteString("(push 1)\n")
		b.WriteString(bl)
		fmt.Fprintf(&b, "\n(check-sat)\n(pop 1)\n(echo \"#end %d\")\n", k)
	}
	f, err := os.CreateTemp("/var/tmp", "govc-multi-*.smt2")
	if err != nil {
		return nil
	}
	if os.Getenv("VERIF_KEEPMULTI") == "" {
		defer os.Remove(f.Name())
	}
	f.WriteString(b.String())
	f.Close()
	of, err := os.CreateTemp("/var/tmp", "govc-multi-*.out")
	if err != nil {
		return nil
	}
	defer os.Remove(of.Name())
	cmd := exec.Command("z3-new", "-t:"+strconv.Itoa(timeoutS*1000), f.Name())
	cmd.Stdout = of
	cmd.Stderr = of
	done := make(chan struct{})
	go func() { _ = cmd.Run(); close(done) }()
	select {
	case <-done:
	case <-time.After(time.Duration(budgetS) * time.Second):
		if cmd.Process != nil {
			cmd.Process.Kill()
		}
		<-done
	}
	of.Close()
	out, _ := os.ReadFile(of.Name())
	// one answer per block, delimited by the echo markers (an error inside a block must not shift the rest)
	ans := make([]string, len(blocks))
	for k := range ans {
		ans[k] = "unknown"
	}
	cur := ""
	for _, l := range strings.Split(string(out), "\n") {
		l = strings.TrimSpace(l)
		switch {
		case l == "sat" || l == "unsat" || l == "unknown" || l == "timeout":
			cur = l
		case strings.HasPrefix(l, "(error"):
			cur = "error"
		case strings.HasPrefix(l, "#end ") || strings.HasPrefix(l, "\"#end "):
			k, err := strconv.Atoi(strings.Trim(strings.TrimPrefix(strings.Trim(l, "\""), "#end "), "\" "))
			if err == nil && k >= 0 && k < len(ans) && cur != "" {
				ans[k] = cur
			}
			cur = ""
		}
	}
	return ans
}

// factsOf: the ground vocabulary facts the harness recorded for one run
func factsOf(obs map[string]interface{}) []string {
	l, _ := obs["facts"].([]interface{})
	var out []string
	seen := map[string]bool{}
	for _, x := range l {
		if f, ok := x.(string); ok && !seen[f] {
			seen[f] = true
			out = append(out, f)
		}
	}
	return out
}

var evaluableVocab = map[string]bool{"atoiOK": true, "atoiVal": true, "atouOK": true, "atouVal": true, "dec": true, "intstr": true, "okInt": true, "parseInt": true, "validDenom": true, "isChannelID": true}

type conformReport struct {
	Spec         string   `json:"spec"`
	Source       string   `json:"source"`
	Inputs       int      `json:"inputs"`
	Returned     int      `json:"returned"`
	Panicked     int      `json:"panicked"`
	ClausesHeld  int      `json:"clause_checks_held"`
	Inconclusive int      `json:"clause_checks_inconclusive"`
	Mismatches   []string `json:"mismatches,omitempty"`
	Imprecise    []string `json:"imprecise,omitempty"`
	Suspects     []string `json:"suspects,omitempty"` // not refuted, over vocabulary evaluated only at the strings seen: for review
	Skipped      string   `json:"skipped,omitempty"`
}

func (e *Engine) uninterpretedSyms() map[string]bool {
	u := map[string]bool{}
	for _, l := range e.specs.preamble {
		l = strings.TrimSpace(l)
		if strings.HasPrefix(l, "(declare-fun ") {
			f := strings.Fields(l[len("(declare-fun "):])
			if len(f) > 0 {
				u[f[0]] = true
			}
		}
	}
	return u
}

// onlyEvaluable: every uninterpreted symbol of the formula is one the harness evaluates
func onlyEvaluable(formula string, unint map[string]bool) bool {
	for _, tok := range strings.FieldsFunc(formula, func(c rune) bool { return c == '(' || c == ')' || c == ' ' || c == '\n' }) {
		if unint[tok] && !evaluableVocab[tok] {
			return false
		}
	}
	return true
}

func mentions(formula string, syms map[string]bool) bool {
	for _, tok := range strings.FieldsFunc(formula, func(c rune) bool { return c == '(' || c == ')' || c == ' ' || c == '\n' }) {
		if syms[tok] {
			return true
		}
	}
	return false
}

// conformPrepare builds the formulas of one trusted spec; the returned continuation runs the real function and
// the solver checks (nil when the spec is skipped).
func (e *Engine) conformPrepare(key string, ct *Contract, max int) (*conformReport, func() *conformReport) {
	curReg = e.types
	rep := &conformReport{Spec: strings.ReplaceAll(key, repoMod+"/", ""), Source: ct.Src}
	fn := e.lookupFn(key)
	if fn == nil {
		rep.Skipped = "no function of that name in the program"
		return rep, nil
	}
	if fn.Pkg != nil && inRepo(fn.Pkg.Pkg) {
		rep.Skipped = "in-repo function (ghost instrumentation)"
		return rep, nil
	}
	if len(ct.Ensures) == 0 && len(ct.PanicsUnless) == 0 {
		rep.Skipped = "no ensures / panics-unless clause"
		return rep, nil
	}
	if len(ct.Modifies) > 0 || len(ct.Sets) > 0 || len(ct.SetsPost) > 0 || len(ct.Counts) > 0 {
		rep.Skipped = "spec with ghost effects"
		return rep, nil
	}
	sig := fn.Signature
	var ptypes []types.Type
	if sig.Recv() != nil {
		ptypes = append(ptypes, sig.Recv().Type())
	}
	for i := 0; i < sig.Params().Len(); i++ {
		ptypes = append(ptypes, sig.Params().At(i).Type())
	}
	if sig.Variadic() || fn.TypeParams().Len() > 0 {
		rep.Skipped = "variadic or generic"
		return rep, nil
	}
	for _, t := range ptypes {
		if !replayableType(t) {
			rep.Skipped = "parameter type " + t.String() + " is not a plain value"
			return rep, nil
		}
	}
	for i := 0; i < sig.Results().Len(); i++ {
		rt := sig.Results().At(i).Type()
		if !replayableType(rt) && !types.Identical(rt, types.Universe.Lookup("error").Type()) {
			rep.Skipped = "result type " + rt.String() + " is not a plain value"
			return rep, nil
		}
	}
	if len(ct.Params) != len(ptypes) || len(ct.Results) > sig.Results().Len() {
		rep.Skipped = "spec header does not match the signature"
		return rep, nil
	}
	var fpkg *types.Package
	if fn.Pkg != nil {
		fpkg = fn.Pkg.Pkg
	} else if sig.Recv() != nil {
		if n, ok := types.Unalias(sig.Recv().Type()).(*types.Named); ok {
			fpkg = n.Obj().Pkg()
		}
	}
	if fpkg == nil || strings.Contains(fpkg.Path(), "/internal/") || !fn.Object().Exported() {
		rep.Skipped = "not importable"
		return rep, nil
	}
	// the spec as formulas over fresh parameter and result constants
	vc := e.newVC("conform "+key, map[string]bool{"*": true}, false)
	vc.declare("alloc~0", sortInt)
	vc.entry = &State{heaps: map[string]string{}, ghosts: map[string]string{}, alloc: "alloc~0"}
	te := vc.newTEnv(vc.entry.clone(), vc.entry, nil)
	var params, results []Val
	for i, t := range ptypes {
		v := vc.havocVal(t, "p_"+ct.Params[i], "alloc~0")
		params = append(params, v)
		te.bind(ct.Params[i], v, t)
	}
	for i := 0; i < sig.Results().Len(); i++ {
		rt := sig.Results().At(i).Type()
		name := fmt.Sprintf("res%d", i)
		if i < len(ct.Results) {
			name = ct.Results[i]
		}
		v := vc.havocVal(rt, "r_"+name, "alloc~0")
		results = append(results, v)
		te.bind(name, v, rt)
	}
	for _, ax := range e.specs.axioms {
		f := te.formula(ax.E)
		if strings.Contains(f, "(forall ") {
			vc.global(f)
		} else {
			vc.assume("true", f)
		}
	}
	unint := e.uninterpretedSyms()
	type clause struct {
		text, f string
		pure    bool
	}
	var ens, pun []clause
	for _, cl := range ct.Ensures {
		f := te.formula(cl.E)
		ens = append(ens, clause{cl.Text, f, !mentions(f, unint)})
	}
	for _, cl := range ct.PanicsUnless {
		f := te.formula(cl.E)
		pun = append(pun, clause{cl.Text, f, !mentions(f, unint)})
	}
	if len(te.errs) > 0 {
		rep.Skipped = "spec does not translate stand-alone: " + te.errs[0]
		return rep, nil
	}
	// everything the clauses mention must be in the query: one obligation whose goal mentions them all
	var all []string
	for _, c := range append(append([]clause{}, ens...), pun...) {
		all = append(all, c.f)
	}
	o := vc.oblige("conform", "conform:"+key, ct.Src, "spec", "true", "(and true "+strings.Join(all, " ")+")", nil)
	if o == nil {
		rep.Skipped = "no obligation"
		return rep, nil
	}
	o.NAssert = len(vc.asserts)
	q := vc.queryFor(o)
	i := strings.LastIndex(q, "(assert (not ")
	if i < 0 {
		rep.Skipped = "query shape"
		return rep, nil
	}
	prefix := q[:i]
	// inputs and the real runs
	imports := map[string]string{}
	imports[fpkg.Path()] = "p_" + sanitize(fpkg.Name())
	alias := imports[fpkg.Path()]
	hostPkg := "types/core"
	var hp *types.Package
	for _, sp := range e.ssaPkgs {
		if sp != nil && sp.Pkg.Path() == repoMod+"/"+hostPkg {
			hp = sp.Pkg
		}
	}
	tuples := genTuples(ptypes, hp, imports, nil, nil, max)
	if len(tuples) == 0 {
		rep.Skipped = "no inputs generated"
		return rep, nil
	}
	callOf := func(lits []string) string {
		if sig.Recv() != nil {
			return "(" + lits[0] + ")." + fn.Name() + "(" + strings.Join(lits[1:], ", ") + ")"
		}
		return alias + "." + fn.Name() + "(" + strings.Join(lits, ", ") + ")"
	}
	return rep, func() *conformReport {
		obs, _, err := runBatch(e.repo, filepath.Join(e.repo, hostPkg), "core", imports, sig, callOf, tuples, "conformance of the trusted spec of "+key)
		if err != nil {
			rep.Skipped = err.Error()
			return rep
		}
		rep.Inputs = len(tuples)
		// solver blocks
		type chk struct {
			tuple int
			kind  string // ensures / panic-sound / panic-precise
			cl    clause
		}
		var blocks []string
		var chks []chk
		show := func(tu []inVal) string {
			var s []string
			for k, v := range tu {
				s = append(s, ct.Params[k]+"="+v.show)
			}
			return strings.Join(s, ", ")
		}
		for ti, tu := range tuples {
			var pins []string
			for k, v := range tu {
				pins = append(pins, v.pin(params[k].t))
			}
			pins = append(pins, factsOf(obs[ti])...)
			if _, panicked := obs[ti]["panic"]; panicked {
				rep.Panicked++
				var conds []string
				for _, c := range pun {
					conds = append(conds, c.f)
				}
				pureAll := true
				for _, c := range pun {
					pureAll = pureAll && c.pure
				}
				blocks = append(blocks, strings.Join(pins, "\n")+"\n(assert (and true "+strings.Join(conds, " ")+"))")
				chks = append(chks, chk{ti, "panic-sound", clause{text: "some panics-unless condition is false", pure: pureAll}})
				continue
			}
			rep.Returned++
			rp, complete := resultPins(sig, results, obs[ti])
			if !complete {
				continue
			}
			for _, c := range ens {
				blocks = append(blocks, strings.Join(append(append([]string{}, pins...), rp...), "\n")+"\n(assert (not "+c.f+"))")
				chks = append(chks, chk{ti, "ensures", c})
			}
			for _, c := range pun {
				blocks = append(blocks, strings.Join(pins, "\n")+"\n(assert (not "+c.f+"))")
				chks = append(chks, chk{ti, "panic-precise", c})
			}
		}
		ans := multiCheck(prefix, blocks, 2)
		for k, c := range chks {
			a := ans[k]
			in := show(tuples[c.tuple])
			o := obs[c.tuple]
			ob, _ := json.Marshal(o)
			switch c.kind {
			case "ensures", "panic-precise":
				if a == "unsat" {
					rep.ClausesHeld++
				} else if a == "sat" && c.cl.pure {
					if c.kind == "ensures" {
						rep.Mismatches = append(rep.Mismatches, fmt.Sprintf("ensures %s FAILS on %s: observed %s", c.cl.text, in, ob))
					} else if len(rep.Imprecise) < 5 {
						rep.Imprecise = append(rep.Imprecise, fmt.Sprintf("panics-unless %s is false on %s but the call returned %s (spec stricter than the code)", c.cl.text, in, ob))
					}
				} else {
					rep.Inconclusive++
				}
			case "panic-sound":
				if a == "unsat" {
					rep.ClausesHeld++
				} else if a == "sat" && c.cl.pure {
					rep.Mismatches = append(rep.Mismatches, fmt.Sprintf("UNSOUND: the call panics (%v) on %s although every panics-unless condition holds", o["panic"], in))
				} else {
					rep.Inconclusive++
				}
			}
		}
		if len(rep.Mismatches) > 8 {
			rep.Mismatches = append(rep.Mismatches[:8], fmt.Sprintf("... and %d more", len(rep.Mismatches)-8))
		}
		return rep
	}
}

func (e *Engine) conformAll(filter string, max int) ([]*conformReport, int) {
	curReg = e.types
	var keys []string
	for k, ct := range e.specs.contracts {
		if ct.Trusted && (filter == "" || strings.Contains(k, filter)) {
			keys = append(keys, k)
		}
	}
	sort.Strings(keys)
	out := make([]*conformReport, len(keys))
	// the formulas are built sequentially (the engine is not re-entrant); the real runs and the solver
	// checks of different specs run side by side
	type job struct {
		i    int
		cont func() *conformReport
	}
	var jobs []job
	for i, k := range keys {
		r, cont := e.conformPrepare(k, e.specs.contracts[k], max)
		if cont == nil {
			out[i] = r
			continue
		}
		jobs = append(jobs, job{i, cont})
	}
	sem := make(chan struct{}, 6)
	done := make(chan struct{})
	for _, j := range jobs {
		j := j
		go func() {
			sem <- struct{}{}
			out[j.i] = j.cont()
			<-sem
			done <- struct{}{}
		}()
	}
	for range jobs {
		<-done
	}
	bad := 0
	for _, r := range out {
		if len(r.Mismatches) > 0 {
			bad++
		}
	}
	return out, bad
}

var _ = ssa.BuilderMode(0)
