package main

// Adoption of loop contracts by loops that moved into helper functions.
//
// Loop contracts are keyed by function and loop ordinal. The most common harmless refactoring that breaks
// this is "extract the loop into a helper": the function keeps its contract, loses the loop, and the helper -
// new, without a contract, inlined at its call - has a loop without invariants. Such a loop adopts, in order
// of execution, the next loop contract its enclosing function lost. The adopted invariants are evaluated with
// the enclosing function's parameter names (g.PausedProtocolIds[j] still means what it meant) and the helper's
// own locals; a local the invariant names that the helper calls differently (seenProtocols -> seen) is bound
// when exactly one local of the kind the invariant needs (a map where it is used as a map, ...) is left.
// None of this is trusted: an adopted invariant is an ordinary loop contract, proved at loop entry and
// preserved by the body like any other, so a wrong guess makes the proof fail, never succeed.

import (
	"go/types"
	"sort"
)

type orphanAnn struct {
	ann     *LoopAnn
	owner   *frame
	ord     int
	adopted bool
	by      map[string]bool // "<call position>|<function>|<header block>" of the loops that adopted it (re-executions reuse it)
}

// adoptFor: called when a loop without a contract, in a contract-less function inlined into one that lost loop
// contracts, is reached. Loops adopt in the order in which they are first reached (the order the original
// loops ran in, when the helpers are called where the loops used to be).
func (fr *frame) adoptFor(l *loopInfo) {
	vc := fr.vc
	if l.ann != nil || fr.contract != nil || fr.depth == 0 || len(vc.orphans) == 0 {
		return
	}
	key := fr.callPos + "|" + fr.fn.String() + "|" + l.header.String()
	var pick *orphanAnn
	for _, o := range vc.orphans {
		if o.by[key] {
			pick = o
			break
		}
	}
	if pick == nil {
		for _, o := range vc.orphans {
			if !o.adopted && o.ann.Unroll == 0 {
				pick = o
				break
			}
		}
	}
	if pick == nil {
		return
	}
	if pick.by == nil {
		pick.by = map[string]bool{}
	}
	pick.by[key] = true
	pick.adopted = true
	l.ann = pick.ann
	l.foreign = pick.owner
	vc.note("loop %d of %s (inlined into %s) adopted loop contract %d of %s: the loop was moved into a helper", l.ordinal, shortFn(fr.fn), shortFn(pick.owner.fn), pick.ord, shortFn(pick.owner.fn))
}

// adoptUnrollAtEntry: an `unroll k` loop contract has to be known before the helper's blocks are scheduled, so
// it is adopted when the helper is entered (by its first contract-less loop, in source order), not when the
// loop is reached.
func (fr *frame) adoptUnrollAtEntry() {
	vc := fr.vc
	if len(vc.orphans) == 0 {
		return
	}
	loops := append([]*loopInfo{}, fr.loops...)
	sort.Slice(loops, func(i, j int) bool { return loops[i].ordinal < loops[j].ordinal })
	for _, l := range loops {
		if l.ann != nil {
			continue
		}
		key := fr.callPos + "|" + fr.fn.String() + "|" + l.header.String()
		var pick *orphanAnn
		for _, o := range vc.orphans {
			if o.by[key] {
				pick = o
				break
			}
		}
		if pick == nil {
			for _, o := range vc.orphans {
				if !o.adopted {
					pick = o
					break
				}
			}
		}
		if pick == nil || pick.ann.Unroll == 0 {
			return
		}
		if pick.by == nil {
			pick.by = map[string]bool{}
		}
		pick.by[key] = true
		pick.adopted = true
		l.ann = pick.ann
		l.unroll = pick.ann.Unroll
		l.foreign = pick.owner
		vc.note("loop %d of %s (inlined into %s) adopted the unroll bound of loop contract %d of %s: the loop was moved into a helper", l.ordinal, shortFn(fr.fn), shortFn(pick.owner.fn), pick.ord, shortFn(pick.owner.fn))
	}
}

// identKinds: the free identifiers of an expression and the kind of value each is used as
// ("map", "seq" for something indexed or measured, "" unknown).
func identKinds(e Expr, bound map[string]bool, out map[string]string) {
	switch x := e.(type) {
	case *EIdent:
		if !bound[x.Name] {
			if _, ok := out[x.Name]; !ok {
				out[x.Name] = ""
			}
		}
	case *ESel:
		identKinds(x.X, bound, out)
	case *EIndex:
		if id, ok := x.X.(*EIdent); ok && !bound[id.Name] {
			out[id.Name] = "seq"
		}
		identKinds(x.X, bound, out)
		identKinds(x.I, bound, out)
	case *EUn:
		identKinds(x.X, bound, out)
	case *EOld:
		identKinds(x.X, bound, out)
	case *EBin:
		identKinds(x.L, bound, out)
		identKinds(x.R, bound, out)
	case *EQuant:
		b2 := map[string]bool{}
		for k := range bound {
			b2[k] = true
		}
		for _, v := range x.Vars {
			b2[v.Name] = true
		}
		identKinds(x.Body, b2, out)
		for _, t := range x.Triggers {
			identKinds(t, b2, out)
		}
	case *ECall:
		for i, a := range x.Args {
			if id, ok := a.(*EIdent); ok && !bound[id.Name] && i == 0 {
				switch x.Fn {
				case "mapHas", "mapGet", "maplen":
					out[id.Name] = "map"
				case "len":
					if out[id.Name] == "" {
						out[id.Name] = "seq"
					}
				}
			}
			identKinds(a, bound, out)
		}
	}
}

// bindByElimination: names the adopted invariants use that nothing is bound to are bound to the one local of
// the helper that has the needed kind and that the invariants do not already call by its own name.
func (te *TEnv) bindByElimination(invs []*Clause, locals []string) {
	need := map[string]string{}
	for _, c := range invs {
		identKinds(c.E, map[string]bool{}, need)
	}
	used := map[string]bool{}
	for n := range need {
		if _, ok := te.vars[n]; ok {
			used[n] = true
		}
	}
	var missing []string
	for n := range need {
		if _, ok := te.vars[n]; ok {
			continue
		}
		if _, isGhost := te.vc.eng.specs.ghostSort[n]; isGhost {
			continue
		}
		missing = append(missing, n)
	}
	sort.Strings(missing)
	kindOf := func(t types.Type) string {
		if t == nil {
			return ""
		}
		switch u := unaliasNil(t).Underlying().(type) {
		case *types.Map:
			return "map"
		case *types.Slice, *types.Array:
			return "seq"
		case *types.Basic:
			if u.Info()&types.IsString != 0 {
				return "seq"
			}
		}
		return "other"
	}
	for _, n := range missing {
		want := need[n]
		if want == "" {
			continue
		}
		var cands []string
		for _, ln := range locals {
			if used[ln] {
				continue
			}
			tv, ok := te.vars[ln]
			if !ok || kindOf(tv.gt) != want {
				continue
			}
			cands = append(cands, ln)
		}
		if len(cands) == 1 {
			te.vars[n] = te.vars[cands[0]]
			used[cands[0]] = true
		}
	}
}
