package main

import (
	"go/constant"
	"strings"

	"golang.org/x/tools/go/ssa"
)

// builtinSpec gives engine-level models for a few library functions whose behaviour depends on
// constant arguments (format strings). Returns nil when no model applies.
func (e *Engine) builtinSpec(fr *frame, fn *ssa.Function, args []Val, st *State, alive string) *Val {
	vc := fr.vc
	switch fn.String() {
	case "fmt.Errorf":
		// fmt.Errorf never returns nil. With a constant format without %w the result wraps nothing,
		// so it is not (and does not wrap) a registered sentinel.
		r := vc.havocVal(fn.Signature.Results().At(0).Type(), "err_Errorf", st.alloc)
		vc.assume(alive, "(not (= (itag "+r.t+") 0))")
		vc.usedSpecs["fmt.Errorf (never nil; wraps only through %w) [engine built-in]"] = true
		if len(fr.curCallArgs) > 0 {
			if c, ok := fr.curCallArgs[0].(*ssa.Const); ok && c.Value != nil && c.Value.Kind() == constant.String {
				if !strings.Contains(constant.StringVal(c.Value), "%w") {
					if _, ok := e.specs.funSigs["rootErr"]; ok {
						vc.assume(alive, "(= (rootErr "+r.t+") 0)")
					}
				}
			}
		}
		return &r
	}
	return nil
}
