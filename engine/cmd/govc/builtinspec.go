package main

import (
	"go/constant"
	"go/token"
	"go/types"
	"strings"

	"golang.org/x/tools/go/ssa"
)

// varargElems finds, syntactically, the values stored into a varargs array that is passed as
// `slice alloc[:]` (the shape go/ssa emits for f(a, b, c) with a variadic f).
func varargElems(v ssa.Value) ([]ssa.Value, bool) {
	sl, ok := v.(*ssa.Slice)
	if !ok {
		if c, isConst := v.(*ssa.Const); isConst && c.Value == nil {
			return nil, true // nil slice: no arguments
		}
		return nil, false
	}
	al, ok := sl.X.(*ssa.Alloc)
	if !ok || sl.Low != nil || sl.High != nil {
		return nil, false
	}
	at, ok := al.Type().(*types.Pointer).Elem().Underlying().(*types.Array)
	if !ok {
		return nil, false
	}
	elems := make([]ssa.Value, at.Len())
	for _, r := range *al.Referrers() {
		ia, ok := r.(*ssa.IndexAddr)
		if !ok {
			continue
		}
		c, ok := ia.Index.(*ssa.Const)
		if !ok || c.Value == nil {
			return nil, false
		}
		k, _ := constant.Int64Val(c.Value)
		for _, r2 := range *ia.Referrers() {
			if st, ok := r2.(*ssa.Store); ok && st.Addr == ia {
				if elems[k] != nil {
					return nil, false
				}
				elems[k] = st.Val
			}
		}
	}
	for _, e := range elems {
		if e == nil {
			return nil, false
		}
	}
	return elems, true
}

// sprintfTerm models fmt.Sprintf for a constant format: %d of an integer is dec(n), %s of a string
// is the string itself; every other verb contributes an unconstrained string.
func (fr *frame) sprintfTerm(format string, elems []ssa.Value) string {
	vc := fr.vc
	var parts []string
	lit := ""
	flush := func() {
		if lit != "" {
			parts = append(parts, smtString(lit))
			lit = ""
		}
	}
	argi := 0
	for i := 0; i < len(format); i++ {
		c := format[i]
		if c != '%' {
			lit += string(c)
			continue
		}
		if i+1 >= len(format) {
			lit += "%"
			break
		}
		i++
		v := format[i]
		if v == '%' {
			lit += "%"
			continue
		}
		flush()
		var term string
		if argi < len(elems) {
			e := elems[argi]
			var inner ssa.Value = e
			if mi, ok := e.(*ssa.MakeInterface); ok {
				inner = mi.X
			}
			it := inner.Type()
			val := fr.operand(inner, fr.curEnv)
			switch {
			case v == 'd' && isIntType(it):
				term = "(dec " + val.t + ")"
			case v == 's' && isStringType(it) && !hasStringMethod(it):
				term = val.t
			}
		}
		argi++
		if term == "" {
			term = vc.fresh("fmtverb", sortString)
		}
		parts = append(parts, term)
	}
	flush()
	switch len(parts) {
	case 0:
		return "\"\""
	case 1:
		return parts[0]
	}
	return "(str.++ " + strings.Join(parts, " ") + ")"
}

func hasStringMethod(t types.Type) bool {
	ms := types.NewMethodSet(t)
	for i := 0; i < ms.Len(); i++ {
		n := ms.At(i).Obj().Name()
		if n == "String" || n == "Error" || n == "Format" {
			return true
		}
	}
	return false
}

// builtinSpec gives engine-level models for a few library functions whose behaviour depends on
// constant arguments (format strings). Returns nil when no model applies.
func (e *Engine) builtinSpec(fr *frame, fn *ssa.Function, args []Val, st *State, alive string) *Val {
	vc := fr.vc
	// generated protobuf getters of external message types: Get<Field>() returns the field (zero value
	// for a nil receiver). This is the shape gogoproto/protoc-gen-go emit; taken as given.
	if recv := fn.Signature.Recv(); recv != nil && len(fn.Blocks) == 0 && strings.HasPrefix(fn.Name(), "Get") && fn.Signature.Params().Len() == 0 && fn.Signature.Results().Len() == 1 && len(args) == 1 {
		rt := recv.Type()
		isPtr := false
		if p, ok := rt.(*types.Pointer); ok {
			rt = p.Elem()
			isPtr = true
		}
		if si := e.types.structInfoOf(rt); si != nil && !inRepo(pkgOfType(rt)) {
			fname := strings.TrimPrefix(fn.Name(), "Get")
			for i, f := range si.fields {
				if f.name == fname && types.Identical(f.typ, fn.Signature.Results().At(0).Type()) {
					vc.usedSpecs["generated protobuf getters of external messages return the field (nil-safe) [engine built-in]"] = true
					var r Val
					if isPtr {
						if args[0].ip != nil {
							np := *args[0].ip
							np.path = append(append([]pathStep{}, args[0].ip.path...), pathStep{si, i})
							r = Val{t: vc.readLoc(st, &np)}
						} else {
							r = Val{t: "(ite (= " + args[0].t + " 0) " + e.types.zero(f.typ) + " " + vc.readField(st, args[0].t, si, i) + ")"}
						}
					} else {
						r = Val{t: "(" + accessor(si, i) + " " + args[0].t + ")"}
					}
					return &r
				}
			}
		}
	}
	switch fn.String() {
	case "(*github.com/cosmos/cosmos-sdk/codec.ProtoCodec).UnmarshalJSON":
		// cdc.UnmarshalJSON(bz, &d) with d an ICS-20 FungibleTokenPacketData: whether the bytes decode, and
		// to what, are the uninterpreted functions isICS20 / ics20Of of the bytes - the same two functions the
		// trusted spec of the wrapped ICS-20 application is written over (it decodes with the same codec).
		// On failure the destination is unconstrained (jsonpb may have filled part of it). The message has
		// string fields only (no Any, no repeated field), so the decoder is assumed not to panic on it.
		if len(fr.curCallArgs) == 3 {
			if mi, ok := fr.curCallArgs[2].(*ssa.MakeInterface); ok {
				if pt, ok := mi.X.Type().Underlying().(*types.Pointer); ok {
					if nt, ok := types.Unalias(pt.Elem()).(*types.Named); ok && nt.Obj().Name() == "FungibleTokenPacketData" && nt.Obj().Pkg() != nil && strings.HasSuffix(nt.Obj().Pkg().Path(), "modules/apps/transfer/types") {
						_, h1 := e.specs.funSigs["isICS20"]
						_, h2 := e.specs.funSigs["ics20Of"]
						if h1 && h2 {
							bv := vc.bytesVal(st, args[1].t)
							errv := vc.havocVal(fn.Signature.Results().At(0).Type(), "err_ics20json", st.alloc)
							vc.assume(alive, "(= (= (itag "+errv.t+") 0) (isICS20 "+bv+"))")
							okc := "(= (itag " + errv.t + ") 0)"
							dst := fr.operand(mi.X, fr.curEnv)
							junk := vc.havocVal(pt.Elem(), "ics20_partial", st.alloc)
							fr.storeThrough(st, dst, pt.Elem(), Val{t: "(ite " + okc + " (ics20Of " + bv + ") " + junk.t + ")"}, alive, fn.Pos(), func(kind, what string, pos token.Pos, cond string) {})
							vc.usedSpecs["(*codec.ProtoCodec).UnmarshalJSON into an ICS-20 FungibleTokenPacketData: success and result are the uninterpreted functions isICS20/ics20Of of the bytes; assumed not to panic (string fields only) [engine built-in]"] = true
							return &errv
						}
					}
				}
			}
		}
		return nil
	case "encoding/json.Unmarshal":
		// json.Unmarshal(data, &m) with m a map[string]any: the resulting map is a function of the
		// bytes (uninterpreted): which root keys exist, how many, and each value. Nothing else is said.
		if len(fr.curCallArgs) == 2 {
			if mi, ok := fr.curCallArgs[1].(*ssa.MakeInterface); ok {
				if pt, ok := mi.X.Type().Underlying().(*types.Pointer); ok {
					if mt, ok := pt.Elem().Underlying().(*types.Map); ok && isStringType(mt.Key()) {
						bv := vc.bytesVal(st, args[0].t)
						vc.declareRaw("maplen!String", "(declare-fun maplen!String ((Array String Bool)) Int)")
						ref := vc.newRef(st, "jsonmap")
						pk, ps, vk, vs := fr.mapHeaps(mt)
						hp := vc.heapGet(st, pk, ps)
						hv := vc.heapGet(st, vk, vs)
						vc.logWrite(pk, ref)
						vc.logWrite(vk, ref)
						vc.heapSet(st, pk, ps, "(store "+hp+" "+ref+" (jsonKeys "+bv+"))")
						vc.heapSet(st, vk, vs, "(store "+hv+" "+ref+" (jsonVals "+bv+"))")
						vc.assume(alive, "(= (maplen!String (jsonKeys "+bv+")) (jsonNumKeys "+bv+"))")
						vc.assume(alive, "(>= (jsonNumKeys "+bv+") 0)")
						errv := vc.havocVal(fn.Signature.Results().At(0).Type(), "err_json", st.alloc)
						vc.assume(alive, "(= (= (itag "+errv.t+") 0) (jsonOK "+bv+"))")
						// the destination variable holds the new map on success
						dst := fr.operand(mi.X, fr.curEnv)
						okc := "(= (itag " + errv.t + ") 0)"
						cur := fr.loadThrough(st, dst, pt.Elem(), alive)
						fr.storeThrough(st, dst, pt.Elem(), Val{t: "(ite " + okc + " " + ref + " " + cur.t + ")"}, alive, fn.Pos(), func(kind, what string, pos token.Pos, cond string) {})
						vc.usedSpecs["encoding/json.Unmarshal into map[string]any: root keys/values are uninterpreted functions of the bytes [engine built-in]"] = true
						return &errv
					}
				}
			}
		}
		return nil
	case "fmt.Sprintf":
		if len(fr.curCallArgs) == 2 {
			if c, ok := fr.curCallArgs[0].(*ssa.Const); ok && c.Value != nil && c.Value.Kind() == constant.String {
				if elems, ok := varargElems(fr.curCallArgs[1]); ok {
					if _, has := e.specs.funSigs["dec"]; has {
						vc.usedSpecs["fmt.Sprintf (constant format: %d of an integer = dec(n), %s of a string = the string) [engine built-in]"] = true
						r := Val{t: vc.define("sprintf", sortString, fr.sprintfTerm(constant.StringVal(c.Value), elems))}
						return &r
					}
				}
			}
		}
		return nil
	case "fmt.Errorf":
		// fmt.Errorf never returns nil. With a constant format without %w the result wraps nothing,
		// so it is not (and does not wrap) a registered sentinel.
		r := vc.havocVal(fn.Signature.Results().At(0).Type(), "err_Errorf", st.alloc)
		vc.assume(alive, "(not (= (itag "+r.t+") 0))")
		vc.usedSpecs["fmt.Errorf (never nil; wraps only through %w) [engine built-in]"] = true
		if len(fr.curCallArgs) > 0 {
			if c, ok := fr.curCallArgs[0].(*ssa.Const); ok && c.Value != nil && c.Value.Kind() == constant.String {
				if !strings.Contains(constant.StringVal(c.Value), "%w") {
					if _, ok := e.specs.funSigs["rootErr"]; ok {
						vc.assume(alive, "(= (rootErr "+r.t+") 0)")
					}
				}
			}
		}
		return &r
	}
	return nil
}
