package main

// Verification of one function against its contract (one property slice).

import (
	"fmt"
	"go/types"
	"sort"
	"strings"

	"golang.org/x/tools/go/ssa"
)

type FuncResult struct {
	Fn       *ssa.Function
	Key      string
	Contract *Contract
	VC       *VC
}

func (e *Engine) verifyFunc(fn *ssa.Function, ct *Contract, slice map[string]bool, safety bool, extra func(vc *VC, te *TEnv, final *State, results []Val, retReach string)) *VC {
	vc := e.newVC(shortFn(fn), slice, safety)
	if e.exemptNext {
		vc.exemptC03 = 1
		e.exemptNext = false
	}
	vc.declare("alloc~0", sortInt)
	vc.assume("true", "(>= alloc~0 0)")
	vc.entry = &State{heaps: map[string]string{}, ghosts: map[string]string{}, alloc: "alloc~0"}
	st := vc.entry.clone()

	var args []Val
	te := vc.newTEnv(st, vc.entry, e.pkgOfFn(fn))
	for i, p := range fn.Params {
		name := p.Name()
		if ct != nil && i < len(ct.Params) {
			name = ct.Params[i]
		}
		v := vc.havocVal(p.Type(), "p_"+name, "alloc~0")
		args = append(args, v)
		if i == 0 && e.selfIface != nil && fn.Signature.Recv() != nil {
			// implementer mode: the contract's receiver is the interface value holding this receiver
			fr := &frame{vc: vc}
			te.bind(name, Val{t: fr.makeIface(p.Type(), v)}, e.selfIface)
			te.bind(p.Name(), v, p.Type())
			continue
		}
		te.bind(name, v, p.Type())
		if p.Name() != name {
			te.bind(p.Name(), v, p.Type())
		}
	}
	var own *Contract
	if ct != nil {
		te.bindLets(ct, true)
		for _, cl := range ct.Requires {
			if cl.inSlice(slice) {
				vc.assume("true", te.formula(cl.E))
			}
		}
		// implementer mode: the function's own contract contributes its object invariants (assumed)
		// and its other preconditions, which the interface's preconditions must imply.
		if e.selfIface != nil {
			own = e.specs.contracts[fnKey(fn)]
		}
		if own != nil && own != ct {
			for i, p := range fn.Params {
				if i < len(own.Params) {
					te.bind(own.Params[i], args[i], p.Type())
				}
			}
			te.bindLets(own, true)
			for _, cl := range own.Requires {
				if !cl.inSlice(slice) {
					continue
				}
				f := te.formula(cl.E)
				if !cl.isInv() {
					vc.oblige("subtype-pre", shortFn(fn)+"#subtype-pre", vc.pos(fn.Pos()), "interface precondition implies "+cl.Text+" ["+cl.Src+"]", "true", f, cl.Tags)
				}
				vc.assume("true", f)
			}
			// loop annotations come from the function's own contract
			merged := *ct
			merged.Loops = own.Loops
			merged.Swallows = append(append([]string{}, ct.Swallows...), own.Swallows...)
			ct = &merged
		}
	}
	for _, ax := range e.specs.axioms {
		if ax.inSlice(slice) {
			f := te.formula(ax.E)
			if strings.Contains(f, "(forall ") {
				// quantified axioms go through the relevance filter of queryFor: they are part of a query
				// only when it mentions one of the symbols they are about
				vc.global(f)
			} else {
				vc.assume("true", f)
			}
		}
	}
	results, final, retReach := vc.execFunc(fn, args, st, "true", 0, ct)
	vc.targetFn, vc.paramVals, vc.resultVals = fn, args, results

	te2 := vc.newTEnv(final, vc.entry, te.pkg)
	te2.vars = te.vars
	if ct != nil {
		for i, n := range ct.Results {
			if i < len(results) {
				te2.bind(n, results[i], fn.Signature.Results().At(i).Type())
			}
		}
		te2.bindLets(ct, false)
		pos := vc.pos(fn.Pos())
		for _, cl := range ct.Ensures {
			if !cl.inSlice(slice) {
				continue
			}
			tag := ""
			if len(cl.Tags) > 0 {
				tag = "[" + strings.Join(cl.Tags, ",") + "]"
			}
			if o := vc.oblige("post", fmt.Sprintf("%s#post%s", shortFn(fn), tag), pos, "ensures "+cl.Text+" ["+cl.Src+"]", retReach, te2.goalFormula(cl.E), cl.Tags); o != nil && len(vc.retConds) > 1 && len(vc.retConds) <= 12 {
				o.Cases = vc.retConds
			}
		}
		if !ct.Trusted {
			vc.frameObligations(fn, ct, te2, final, retReach)
		}
		if ct.PureResult != "" && len(results) > 0 {
			reason := e.impure(fn, map[*ssa.Function]bool{})
			goal := "true"
			if reason != "" {
				goal = "false"
			}
			vc.oblige("purity", shortFn(fn)+"#purity", pos, "result of "+fn.Name()+" depends only on its parameters"+map[bool]string{true: "", false: " — " + reason}[reason == ""], "true", goal, nil)
			vc.assume(retReach, "(= "+results[0].t+" "+vc.namedTerm(ct.PureResult, fn.Signature, args, fn.Signature.Recv() != nil)+")")
		}
		if ct.PureVerdict != "" {
			// the verdict is a function of the parameters: justified by the purity scan (effect check, no SMT)
			reason := e.impure(fn, map[*ssa.Function]bool{})
			goal := "true"
			if reason != "" {
				goal = "false"
			}
			vc.oblige("purity", shortFn(fn)+"#purity", pos, "verdict of "+fn.Name()+" depends only on its parameters"+map[bool]string{true: "", false: " — " + reason}[reason == ""], "true", goal, nil)
			if ei := errResultIndex(fn.Signature); ei >= 0 && ei < len(results) {
				var rt types.Type
				if fn.Signature.Recv() != nil {
					rt = fn.Params[0].Type()
				}
				// make the name usable in this function's own clauses
				vt := vc.verdictTerm(ct, fn.Signature, args, rt)
				vc.assume(retReach, "(= (= (itag "+results[ei].t+") 0) "+vt+")")
			}
		}
	}
	if extra != nil {
		extra(vc, te2, final, results, retReach)
	}
	vc.cover(shortFn(fn)+"#cover:returns", vc.pos(fn.Pos()), "the function can return under its precondition (contract is not vacuous)", retReach)
	for u := range vc.unsupported {
		if strings.Contains(u, "concurrency") {
			vc.oblige("unsupported", shortFn(fn)+"#unsupported", "", u, "true", "false", nil)
		}
	}
	return vc
}

// frameObligations: everything not listed in modifies is unchanged for pre-existing objects.
func (vc *VC) frameObligations(fn *ssa.Function, ct *Contract, te *TEnv, final *State, retReach string) {
	pos := vc.pos(fn.Pos())
	modGhost := map[string]bool{}
	allHeap, allGhosts := false, false
	type des struct {
		heap string
		ref  string
	}
	var dess []des
	wholeHeaps := map[string]bool{}
	reg := vc.eng.types
	teOld := te.withState(vc.entry)
	for _, m := range ct.Modifies {
		switch x := m.E.(type) {
		case *EIdent:
			if _, ok := vc.eng.specs.ghostSort[x.Name]; ok {
				modGhost[x.Name] = true
				continue
			}
			if x.Name == "heap" {
				allHeap = true
				continue
			}
			if x.Name == "ghosts" {
				allGhosts = true
				continue
			}
		case *ECall:
			if x.Fn == "fieldheap" {
				// fieldheap("pkg.Type", "field"): that field of every object of the type
				if key := teOld.fieldHeapKey(x); key != "" {
					wholeHeaps[key] = true
					continue
				}
			}
			if x.Fn == "all" {
				tv := teOld.term(x.Args[0])
				if p, ok := underNil(tv.gt).(*types.Pointer); ok && tv.gt != nil {
					if si := reg.structInfoOf(p.Elem()); si != nil {
						for i := range si.fields {
							dess = append(dess, des{heapKeyField(si, i), tv.t})
						}
						continue
					}
					dess = append(dess, des{heapKeyCell(reg.sortOf(p.Elem())), tv.t})
					continue
				}
			}
			if x.Fn == "mapof" {
				tv := teOld.term(x.Args[0])
				if mt, ok := underNil(tv.gt).(*types.Map); ok && tv.gt != nil {
					fr := &frame{vc: vc}
					pk, _, vk, _ := fr.mapHeaps(mt)
					dess = append(dess, des{pk, tv.t}, des{vk, tv.t})
					continue
				}
			}
			if x.Fn == "elems" {
				tv := teOld.term(x.Args[0])
				if sl, ok := underNil(tv.gt).(*types.Slice); ok && tv.gt != nil {
					dess = append(dess, des{heapKeyElem(reg.sortOf(sl.Elem())), "(sref " + tv.t + ")"})
					continue
				}
			}
		}
		if ip := teOld.loc(m.E); ip != nil {
			dess = append(dess, des{ip.heap, ip.ref})
			continue
		}
		te.fail("cannot interpret modifies designator %s", m.Text)
	}
	if !allGhosts {
		var gs []string
		for g := range final.ghosts {
			gs = append(gs, g)
		}
		sort.Strings(gs)
		for _, g := range gs {
			if modGhost[g] {
				continue
			}
			e0 := vc.ghostGet(vc.entry, g)
			if final.ghosts[g] == e0 {
				continue
			}
			vc.oblige("frame", fmt.Sprintf("%s#frame:ghost(%s)", shortFn(fn), g), pos, "ghost "+g+" is not in modifies and must be unchanged", retReach, "(= "+final.ghosts[g]+" "+e0+")", nil)
		}
	}
	if allHeap {
		return
	}
	var hs []string
	for k := range final.heaps {
		hs = append(hs, k)
	}
	sort.Strings(hs)
	for _, k := range hs {
		if wholeHeaps[k] {
			continue
		}
		e0 := vc.heapGet(vc.entry, k, vc.heapSorts[k])
		if final.heaps[k] == e0 {
			continue
		}
		r := vc.fresh("fr", sortInt)
		conds := []string{"(> " + r + " 0)", "(<= " + r + " alloc~0)"}
		for _, d := range dess {
			if d.heap == k {
				conds = append(conds, "(not (= "+r+" "+d.ref+"))")
			}
		}
		goal := "(=> (and " + strings.Join(conds, " ") + ") (= (select " + final.heaps[k] + " " + r + ") (select " + e0 + " " + r + ")))"
		vc.oblige("frame", fmt.Sprintf("%s#frame:heap(%s)", shortFn(fn), k), pos, "pre-existing objects in "+k+" are unchanged except those in modifies", retReach, goal, nil)
	}
}
