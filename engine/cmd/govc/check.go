package main

// Property checks: collect the functions under contract for a property, verify, report.

import (
	"encoding/json"
	"fmt"
	"go/types"
	"os"
	"path/filepath"
	"sort"
	"strconv"
	"strings"
	"time"

	"golang.org/x/tools/go/ssa"
)

type target struct {
	fn        *ssa.Function
	ct        *Contract
	key       string
	why       string
	exempt    bool       // C03: only ever called below a declared error swallow
	selfIface types.Type // implementer mode: the interface whose method contract is being checked
	extra     func(vc *VC, te *TEnv, final *State, results []Val, retReach string)
}

type KnownFinding struct {
	Property   string `json:"property"`
	Obligation string `json:"obligation"` // obligation name prefix (without ordinal) or full name
	What       string `json:"what"`
	Status     string `json:"status"` // "open" or "fixed"
	Commit     string `json:"commit,omitempty"`
}

type checkRun struct {
	e        *Engine
	prop     string
	tier     string
	seed     int
	slice    map[string]bool
	safety   bool
	batches  map[*ssa.Function]*batchRun // bounded input search: one real run per function
	targets  []target
	vcs      []*VC
	tally    *Tally
	start    time.Time
	extraObl []*Obligation
	notes    []string
	nLemmas  int
	scanOnly bool   // the property is decided by scan obligations only (C19)
	tag      string // the clause tag of the current pass (the property id, or one of its sub-slices)
}

// subSlices: a property whose clauses are proved in several independent passes. A pass sees only the
// clauses of its own tag (plus [base]/[inv]); this keeps hypotheses that are needed for one direction of
// an equivalence (and are expensive for the solvers, e.g. nested quantifiers) out of the other direction.
// A pass whose name ends in "p" is prove-only: its clauses (preservation of store invariants, which no
// caller needs) are obligations of the functions that carry them and are not assumed at call sites.
var subSlices = map[string][]string{"C17": {"C17c", "C17p"}}

func (cr *checkRun) passTag() string {
	if cr.tag != "" {
		return cr.tag
	}
	return cr.prop
}

func clauseHasTag(c *Clause, prop string) bool {
	for _, t := range c.Tags {
		if t == prop {
			return true
		}
	}
	return false
}

func contractHasTag(ct *Contract, prop string) bool {
	for _, c := range ct.Requires {
		if clauseHasTag(c, prop) {
			return true
		}
	}
	for _, c := range ct.Ensures {
		if clauseHasTag(c, prop) {
			return true
		}
	}
	for _, l := range ct.Loops {
		for _, c := range l.Invs {
			if clauseHasTag(c, prop) {
				return true
			}
		}
	}
	return false
}

// implementers returns in-repo concrete methods implementing the interface method named by key
// "(pkg.Iface).Method" (type arguments optional).
func (e *Engine) implementers(key string) []*ssa.Function {
	if !strings.HasPrefix(key, "(") {
		return nil
	}
	i := strings.LastIndex(key, ").")
	if i < 0 {
		return nil
	}
	tname := key[1:i]
	mname := key[i+2:]
	targs := ""
	if j := strings.Index(tname, "["); j >= 0 {
		targs = tname[j:]
		tname = tname[:j]
	}
	dot := strings.LastIndex(tname, ".")
	if dot < 0 {
		return nil
	}
	var pkg *types.Package
	for _, p := range e.prog.AllPackages() {
		if p.Pkg.Path() == tname[:dot] {
			pkg = p.Pkg
		}
	}
	if pkg == nil {
		return nil
	}
	obj, _ := pkg.Scope().Lookup(tname[dot+1:]).(*types.TypeName)
	if obj == nil {
		return nil
	}
	named, _ := obj.Type().(*types.Named)
	if named == nil {
		return nil
	}
	if _, ok := named.Underlying().(*types.Interface); !ok {
		return nil
	}
	var out []*ssa.Function
	seen := map[*ssa.Function]bool{}
	for _, sp := range e.ssaPkgs {
		if sp == nil || !inRepo(sp.Pkg) {
			continue
		}
		for _, m := range sp.Members {
			tn, ok := m.(*ssa.Type)
			if !ok {
				continue
			}
			nt, ok := tn.Type().(*types.Named)
			if !ok || nt.TypeParams().Len() > 0 {
				continue
			}
			if strings.Contains(sp.Pkg.Path(), "/testutil") || strings.Contains(sp.Pkg.Path(), "/e2e") || strings.Contains(sp.Pkg.Path(), "/simapp") {
				continue // test doubles are not production implementations
			}
			if _, isIface := nt.Underlying().(*types.Interface); isIface {
				continue
			}
			for _, recv := range []types.Type{nt, types.NewPointer(nt)} {
				if !e.implementsNamed(recv, named, targs) {
					continue
				}
				sel := e.prog.MethodSets.MethodSet(recv).Lookup(nil, mname)
				if sel == nil {
					// unexported method from another package
					for k := 0; k < e.prog.MethodSets.MethodSet(recv).Len(); k++ {
						if s := e.prog.MethodSets.MethodSet(recv).At(k); s.Obj().Name() == mname {
							sel = s
						}
					}
				}
				if sel == nil {
					continue
				}
				fn := e.prog.MethodValue(sel)
				if fn == nil || seen[fn] {
					continue
				}
				// skip promoted-method wrappers: verify the declared method once
				if fn.Synthetic != "" {
					continue
				}
				if fn.Pkg == nil || !inRepo(fn.Pkg.Pkg) {
					continue
				}
				seen[fn] = true
				out = append(out, fn)
			}
		}
	}
	sort.Slice(out, func(i, j int) bool { return out[i].String() < out[j].String() })
	return out
}

// ifaceOfKey resolves the (possibly instantiated) interface type named in an interface-method key.
func (e *Engine) ifaceOfKey(key string) types.Type {
	i := strings.LastIndex(key, ").")
	if !strings.HasPrefix(key, "(") || i < 0 {
		return nil
	}
	tname := key[1:i]
	if j := strings.Index(tname, "["); j >= 0 {
		if inst := e.instIfaces[tname]; inst != nil {
			return inst
		}
		tname = tname[:j]
	}
	dot := strings.LastIndex(tname, ".")
	if dot < 0 {
		return nil
	}
	for _, p := range e.prog.AllPackages() {
		if p.Pkg.Path() == tname[:dot] {
			if obj, ok := p.Pkg.Scope().Lookup(tname[dot+1:]).(*types.TypeName); ok {
				return obj.Type()
			}
		}
	}
	return nil
}

func (e *Engine) implementsNamed(recv types.Type, iface *types.Named, targs string) bool {
	if iface.TypeParams().Len() == 0 {
		return types.Implements(recv, iface.Underlying().(*types.Interface))
	}
	// generic interface: try the instantiations that occur in the program with the given args
	for _, fn := range e.allFns {
		_ = fn
		break
	}
	// find instantiation by scanning named types used in the program is costly; instead check
	// method-wise against every instantiated interface type recorded in contracts keys
	inst := e.instIfaces[qualifiedName(iface)+targs]
	if inst == nil {
		return false
	}
	return types.Implements(recv, inst.Underlying().(*types.Interface))
}

func (cr *checkRun) collectTargets() {
	e := cr.e
	var keys []string
	for k := range e.specs.contracts {
		keys = append(keys, k)
	}
	sort.Strings(keys)
	for _, k := range keys {
		ct := e.specs.contracts[k]
		if ct.Trusted || ct.Opaque || !contractHasTag(ct, cr.passTag()) {
			continue
		}
		fns := e.instances(k)
		if len(fns) > 0 {
			for _, fn := range fns {
				cr.targets = append(cr.targets, target{fn: fn, ct: ct, key: k, why: "contract"})
			}
			continue
		}
		impls := e.implementers(k)
		if len(ct.Implementers) > 0 {
			var keep []*ssa.Function
			for _, fn := range impls {
				for _, pat := range ct.Implementers {
					if strings.Contains(fn.String(), pat) {
						keep = append(keep, fn)
						break
					}
				}
			}
			cr.notes = append(cr.notes, "interface contract "+strings.ReplaceAll(k, repoMod+"/", "")+" is checked on the implementations that are injected ("+strings.Join(ct.Implementers, ", ")+"); the wiring is read, not proved")
			impls = keep
		}
		for _, fn := range impls {
			cr.targets = append(cr.targets, target{fn: fn, ct: ct, key: k, why: "implements " + strings.ReplaceAll(k, repoMod+"/", ""), selfIface: e.ifaceOfKey(k)})
		}
		if len(impls) == 0 {
			cr.notes = append(cr.notes, "STALE-CONTRACT: no function or implementer found for "+k+" ("+ct.Src+")")
		}
	}
}

func runCheck(repo, verifDir, prop, tier string) int {
	start := time.Now()
	seed, _ := strconv.Atoi(os.Getenv("VERIF_SEED"))
	e, err := loadEngine(repo, verifDir)
	if err != nil {
		fmt.Fprintln(os.Stderr, "load error:", err)
		return 2
	}
	cr := &checkRun{e: e, prop: prop, tier: tier, seed: seed, slice: map[string]bool{prop: true}, start: start,
		tally: &Tally{BySolver: map[string]int{}}}
	// C17: genesis validation and initialisation must not panic either (the module panics on an init error);
	// C11: coins already on the account must not block a transfer, so the sweep and the balance precondition must not panic
	cr.safety = prop == "C14" || prop == "C17" || prop == "C11"
	e.useTypeInv = cr.safety
	if len(e.loadErrors) > 0 {
		for _, le := range e.loadErrors {
			fmt.Println("LOAD ERROR:", le)
		}
		fmt.Printf("VIOLATION property=%s replay=%s no-failing-input-found\n", prop, cr.writeReplay(&Obligation{Name: "load#typecheck", Kind: "load", Status: "failed", Model: strings.Join(e.loadErrors, "\n")}))
		return 1
	}
	cr.collectTargets()
	if hook, ok := propertyHooks[prop]; ok {
		hook(cr)
	}
	qdir := filepath.Join("/var/tmp", fmt.Sprintf("govc-%s-%d", prop, os.Getpid()))
	os.MkdirAll(qdir, 0o755)
	defer os.RemoveAll(qdir)
	timeouts := []int{15, 15, 15}
	if tier == "thorough" {
		timeouts = []int{60, 60, 60}
	}
	// lemmas tagged with this property: obligations over the specification vocabulary alone
	for _, lm := range e.specs.lemmas {
		has := false
		for _, t := range lm.Tags {
			if t == prop {
				has = true
			}
		}
		if !has {
			continue
		}
		vc := e.newVC("lemma "+lm.Name, cr.slice, false)
		vc.declare("alloc~0", sortInt)
		vc.entry = &State{heaps: map[string]string{}, ghosts: map[string]string{}, alloc: "alloc~0"}
		var pkg *ssa.Package
		for _, sp := range e.ssaPkgs {
			if sp != nil && sp.Pkg.Path() == lm.Pkg {
				pkg = sp
			}
		}
		te := vc.newTEnv(vc.entry.clone(), vc.entry, pkg)
		// a lemma is proved from the axioms of the specification vocabulary
		for _, ax := range e.specs.axioms {
			if ax.inSlice(cr.slice) {
				if f := te.formula(ax.E); strings.Contains(f, "(forall ") {
					vc.global(f)
				} else {
					vc.assume("true", f)
				}
			}
		}
		vc.oblige("lemma", "lemma:"+lm.Name, lm.Src, "lemma "+lm.Text, "true", te.goalFormula(lm.E), lm.Tags)
		vc.discharge(SolveOpts{Dir: qdir, Timeouts: timeouts, Parallel: 16, Seed: seed, Second: tier == "thorough"}, cr.tally)
		cr.vcs = append(cr.vcs, vc)
		cr.nLemmas++
	}
	// package-level variables must not be written outside init (enum maps, sentinels, constants read as fixed)
	if gw := e.globalsWritten(); len(gw) > 0 {
		cr.extraObl = append(cr.extraObl, &Obligation{Name: "globals#immutable", Kind: "scan", Status: "failed", Clause: "package-level variables are written outside init: " + strings.Join(gw, "; ")})
	} else {
		cr.extraObl = append(cr.extraObl, &Obligation{Name: "globals#immutable", Kind: "scan", Status: "discharged", Solver: "ssa-scan", Clause: "no in-repo function stores to a package-level variable outside init"})
	}
	if cr.safety {
		// object invariants used for panic freedom: allocation and field stores confined to the constructors
		if bad, n := e.typeInvScan(); len(bad) > 0 {
			cr.extraObl = append(cr.extraObl, &Obligation{Name: "typeinv#immutable", Kind: "scan", Status: "failed", Clause: "object invariants are not protected: " + strings.Join(bad, "; ")})
		} else if n > 0 {
			cr.extraObl = append(cr.extraObl, &Obligation{Name: "typeinv#immutable", Kind: "scan", Status: "discharged", Solver: "ssa-scan", Clause: fmt.Sprintf("%d component types with an object invariant: allocated in their constructors only, no field stored elsewhere, every constructor under a contract ensuring the invariant", n)})
		}
	}
	runPass := func() {
		done := map[string]bool{}
		verify := func(t target) {
			e.selfIface = t.selfIface
			e.exemptNext = t.exempt
			safety := cr.safety
			if cr.prop == "C17" && !(strings.Contains(t.fn.Name(), "InitGenesis") || strings.Contains(t.fn.Name(), "Validate") || strings.HasPrefix(t.fn.Name(), "SetPaused") || strings.HasPrefix(t.fn.Name(), "SetDispatched") || t.fn.Name() == "SetParams" || exportSafety(t.fn.Name())) {
				// C17 claims panic freedom for validation, initialisation (the module panics on an init error) and
				// export; everything else in the slice is proved functionally only
				safety = false
			}
			if cr.prop == "C11" && !(t.fn.Name() == "clearOrbiterBalance" || t.fn.Name() == "BeforeTransferHook" || t.fn.Name() == "validateInitialConditions" ||
				(t.fn.Name() == "HandlePacket" && strings.Contains(t.fn.String(), "forwarder.Forwarder"))) {
				// C11 claims panic freedom only where the pre-existing balance is read (the whole receive path is C14's)
				safety = false
			}
			if e.isTypeInvWriter(t.fn) {
				safety = false
			}
			vc := e.verifyFunc(t.fn, t.ct, cr.slice, safety, t.extra)
			e.selfIface = nil
			vc.discharge(SolveOpts{Dir: qdir, Timeouts: timeouts, Parallel: 16, Seed: seed, Second: tier == "thorough"}, cr.tally)
			cr.vcs = append(cr.vcs, vc)
		}
		for _, t := range cr.targets {
			done[t.fn.String()+"|"+t.key] = true
			verify(t)
		}
		// every in-repo contract that was *assumed* at a call site during this run is verified in this run
		// too (its clauses of this property's slice, [base] included), until nothing new is used.
		for round := 0; round < 8; round++ {
			var more []target
			var keys []string
			for k := range e.specs.contracts {
				keys = append(keys, k)
			}
			sort.Strings(keys)
			for _, k := range keys {
				ct := e.specs.contracts[k]
				if !ct.used || ct.Trusted || ct.Opaque {
					continue
				}
				fns := e.instances(k)
				var sel types.Type
				if len(fns) == 0 {
					fns = e.implementers(k)
					sel = e.ifaceOfKey(k)
					if len(ct.Implementers) > 0 {
						var keep []*ssa.Function
						for _, fn := range fns {
							for _, pat := range ct.Implementers {
								if strings.Contains(fn.String(), pat) {
									keep = append(keep, fn)
									break
								}
							}
						}
						fns = keep
					}
				}
				for _, fn := range fns {
					id := fn.String() + "|" + k
					if done[id] {
						continue
					}
					done[id] = true
					more = append(more, target{fn: fn, ct: ct, key: k, why: "assumed at a call site of this slice", selfIface: sel, exempt: !ct.usedStrict})
				}
			}
			if len(more) == 0 {
				break
			}
			for _, t := range more {
				cr.targets = append(cr.targets, t)
				verify(t)
			}
		}
	}
	runPass()
	for _, sub := range subSlices[prop] {
		first := cr.targets
		cr.tag = sub
		cr.slice = map[string]bool{sub: true}
		cr.safety = false // panic freedom is established in the first pass
		for _, ct := range e.specs.contracts {
			ct.used, ct.usedStrict = false, false
		}
		cr.targets = nil
		cr.collectTargets()
		runPass()
		cr.targets = append(first, cr.targets...)
	}
	return cr.report()
}

var propertyHooks = map[string]func(cr *checkRun){}

func (cr *checkRun) loadKnown() []KnownFinding {
	var kf []KnownFinding
	data, err := os.ReadFile(filepath.Join(cr.e.verifDir, "known_findings.json"))
	if err != nil {
		return nil
	}
	var doc struct {
		Findings []KnownFinding `json:"findings"`
	}
	if json.Unmarshal(data, &doc) == nil {
		kf = doc.Findings
	}
	return kf
}

func stripOrdinal(name string) string {
	if i := strings.LastIndex(name, "#"); i >= 0 {
		if _, err := strconv.Atoi(name[i+1:]); err == nil {
			return name[:i]
		}
	}
	return name
}

func (cr *checkRun) writeReplay(o *Obligation) string {
	dir := filepath.Join(cr.e.outDir, "replay", cr.prop)
	os.MkdirAll(dir, 0o755)
	name := sanitize(o.Name)
	if len(name) > 150 {
		name = name[:150]
	}
	path := filepath.Join(dir, name+".json")
	model := o.Model
	if len(model) > 20000 {
		model = model[:20000] + "\n...(truncated)"
	}
	doc := map[string]interface{}{
		"property":   cr.prop,
		"obligation": o.Name,
		"kind":       o.Kind,
		"function":   o.Func,
		"position":   o.Pos,
		"clause":     o.Clause,
		"solver":     map[string]interface{}{"name": o.Solver, "answer": o.Status, "seconds": o.Seconds, "output": model},
		"replay":     map[string]interface{}{"ran": false, "confirmed": false, "note": "no-failing-input-found: the obligation is discharged on the unchanged tree and is not discharged on this tree"},
	}
	if o.replay != nil {
		doc["replay"] = o.replay
	}
	if o.Query != "" {
		q := filepath.Join(dir, name+".smt2")
		if data, err := os.ReadFile(o.Query); err == nil {
			os.WriteFile(q, data, 0o644)
			doc["query"] = q
		}
	}
	data, _ := json.MarshalIndent(doc, "", " ")
	os.WriteFile(path, data, 0o644)
	return path
}

func (cr *checkRun) report() int {
	e := cr.e
	known := cr.loadKnown()
	var all []*Obligation
	fnUnder := map[string]bool{}
	inlined := map[string]bool{}
	trusted := map[string]bool{}
	havocked := map[string]bool{}
	notes := map[string]bool{}
	unsupported := map[string]bool{}
	for _, vc := range cr.vcs {
		all = append(all, vc.obls...)
		fnUnder[vc.fnName] = true
		for k := range vc.inlinedFns {
			inlined[k] = true
		}
		for k := range vc.usedSpecs {
			trusted[k] = true
		}
		for k := range vc.havocked {
			havocked[k] = true
		}
		for _, n := range vc.notes {
			notes[n] = true
		}
		for k := range vc.unsupported {
			unsupported[k] = true
		}
	}
	all = append(all, cr.extraObl...)
	for _, n := range cr.notes {
		notes[n] = true
	}
	// thorough tier: the trusted specs this run relied on are tested against the real functions (conform.go);
	// a spec the real code contradicts is an undischarged obligation of the property (the proof rests on it)
	var conformSummary map[string]interface{}
	if cr.tier == "thorough" && os.Getenv("VERIF_NOCONFORM") == "" {
		var keys []string
		for k := range trusted {
			if i := strings.Index(k, " ["); i > 0 {
				key := k[:i]
				if j := strings.Index(key, " ("); j > 0 {
					key = key[:j]
				}
				if ct := e.specs.contracts[key]; ct != nil && ct.Trusted {
					keys = append(keys, key)
				}
			}
		}
		sort.Strings(keys)
		tested, inputs, held, inconcl := 0, 0, 0, 0
		var lines []interface{}
		var jobs []func() *conformReport
		for i, k := range keys {
			if i > 0 && keys[i-1] == k {
				continue
			}
			if _, cont := e.conformPrepare(k, e.specs.contracts[k], 50); cont != nil {
				jobs = append(jobs, cont)
			}
		}
		reps := make([]*conformReport, len(jobs))
		sem := make(chan struct{}, 6)
		done := make(chan struct{})
		for i, j := range jobs {
			i, j := i, j
			go func() { sem <- struct{}{}; reps[i] = j(); <-sem; done <- struct{}{} }()
		}
		for range jobs {
			<-done
		}
		for _, r := range reps {
			if r.Skipped != "" {
				continue
			}
			tested++
			inputs += r.Inputs
			held += r.ClausesHeld
			inconcl += r.Inconclusive
			st := "discharged"
			clause := fmt.Sprintf("trusted spec %s [%s] agrees with the real function on %d generated inputs (%d returned, %d panicked; %d clause checks held, %d inconclusive) - bounded test of an assumption, not a proof", r.Spec, r.Source, r.Inputs, r.Returned, r.Panicked, r.ClausesHeld, r.Inconclusive)
			if len(r.Mismatches) > 0 {
				st = "failed"
				clause = fmt.Sprintf("trusted spec %s [%s] is CONTRADICTED by the real function: %s", r.Spec, r.Source, strings.Join(r.Mismatches, " | "))
			}
			all = append(all, &Obligation{Name: "spec-conformance:" + r.Spec, Kind: "spec-conformance", Status: st, Solver: "go test + z3-new", Clause: clause})
			if len(lines) < 40 {
				lines = append(lines, map[string]interface{}{"spec": r.Spec, "inputs": r.Inputs, "panicked": r.Panicked, "held": r.ClausesHeld, "inconclusive": r.Inconclusive, "mismatches": len(r.Mismatches)})
			}
		}
		conformSummary = map[string]interface{}{"label": "bounded (generated inputs per spec stated), never counted as proved", "trusted_specs_used": len(keys), "tested_against_real_functions": tested, "inputs_run": inputs, "clause_checks_held": held, "clause_checks_inconclusive": inconcl, "per_spec": lines,
			"not_testable": "specs of interface methods (keepers, message servers, stores), of functions taking structs/pointers/interfaces, and clauses over uninterpreted vocabulary"}
	}
	specErrs := 0
	for m := range e.specErrors {
		fmt.Println("STALE-CONTRACT:", m)
		notes["STALE-CONTRACT: "+m] = true
		specErrs++
	}
	for _, m := range e.specs.errors {
		fmt.Println("STALE-CONTRACT:", m)
		notes["STALE-CONTRACT: "+m] = true
		specErrs++
	}
	discharged, failed := 0, 0
	kinds := map[string]int{}
	violations := 0
	exit := 0
	var samples []interface{}
	// remove stale replay files of this property
	os.RemoveAll(filepath.Join(e.outDir, "replay", cr.prop))
	knownHit := map[int]bool{}
	vcOf := map[*Obligation]*VC{}
	for _, vc := range cr.vcs {
		for _, o := range vc.obls {
			vcOf[o] = vc
		}
	}
	replays := 0
	for _, o := range all {
		kinds[o.Kind]++
		if o.Status == "discharged" {
			discharged++
			if o.Seconds > 3 && os.Getenv("VERIF_SLOW") != "" {
				fmt.Printf("SLOW %.1fs %s %s\n", o.Seconds, o.Solver, o.Name)
			}
			if len(samples) < 6 {
				samples = append(samples, map[string]string{"obligation": o.Name, "clause": o.Clause, "solver": o.Solver, "position": o.Pos})
			}
			continue
		}
		failed++
		// known finding?
		matched := false
		for i, k := range known {
			if k.Property == cr.prop && k.Status != "fixed" && (k.Obligation == o.Name || k.Obligation == stripOrdinal(o.Name)) {
				if !knownHit[i] {
					fmt.Printf("KNOWN-FINDING: property=%s %s (%s)\n", cr.prop, k.What, k.Obligation)
				}
				knownHit[i] = true
				matched = true
				o.known = k.What
			}
		}
		if matched {
			continue
		}
		violations++
		exit = 1
		var rr *replayResult
		if vc := vcOf[o]; vc != nil && replays < 6 {
			if rr = cr.tryReplay(o, vc); rr != nil && rr.Ran {
				replays++
			}
		}
		o.replay = rr
		path := cr.writeReplay(o)
		fmt.Printf("FAILED %s %s [%s] %s\n        %s\n", o.Kind, o.Name, o.Status, o.Pos, o.Clause)
		if rr != nil && rr.Confirmed {
			fmt.Printf("        replayed on the real code: %s; inputs %v; observed %v\n", rr.Note, rr.Inputs, rr.Observed)
			fmt.Printf("VIOLATION property=%s replay=%s\n", cr.prop, path)
		} else {
			fmt.Printf("VIOLATION property=%s replay=%s no-failing-input-found\n", cr.prop, path)
		}
	}
	if len(all) == 0 || len(cr.targets) == 0 && len(cr.extraObl) == 0 && cr.nLemmas == 0 {
		o := &Obligation{Name: cr.prop + "#no-obligations", Kind: "vacuity", Status: "failed", Clause: "the check generated no obligations (contracts missing or stale)"}
		path := cr.writeReplay(o)
		fmt.Printf("VIOLATION property=%s replay=%s no-failing-input-found\n", cr.prop, path)
		exit = 1
		violations++
	}
	wall := time.Since(cr.start).Seconds()
	keys := func(m map[string]bool) []string {
		var ks []string
		for k := range m {
			ks = append(ks, k)
		}
		sort.Strings(ks)
		return ks
	}
	var knownOut []string
	for i, k := range known {
		if knownHit[i] {
			knownOut = append(knownOut, k.Obligation+": "+k.What)
		}
	}
	level := "proof"
	if cr.scanOnly {
		level = "other" // decided by inspection obligations over the SSA, not by SMT (C19; MANIFEST category "other")
	}
	cov := map[string]interface{}{
		"obligations":                          len(all),
		"discharged":                           discharged,
		"checker_cmd":                          fmt.Sprintf("cd /verif && ./check %s %s", cr.prop, cr.tier),
		"trusted_base":                         append(keys(trusted), "go/ssa + go/types (x/tools v0.29.0) as the front end", "govc (this VC generator)", "z3 5.1.0 / cvc5 1.0.3 / z3 4.8.12"),
		"functions_under_contract":             keys(fnUnder),
		"functions_inlined_not_under_contract": keys(inlined),
		"havocked_callees":                     keys(havocked),
		"obligations_by_kind":                  kinds,
		"discharged_by_solver":                 cr.tally.BySolver,
		"second_solver_agreed":                 cr.tally.Agreed,
		"solver_seconds":                       cr.tally.SolverSec,
		"solver_queries":                       cr.tally.Queries,
		"samples":                              samples,
		"known_findings_reported":              knownOut,
		"undischarged":                         failed,
		"notes":                                keys(notes),
		"unsupported_constructs":               keys(unsupported),
		"trusted_spec_conformance":             conformSummary,
		"explanation":                          "Each obligation is one SMT query (negated goal under the function's passive-form assumptions) generated from go/ssa of /repo's working tree; 'discharged' counts queries answered unsat (sat for covers). Integers are mathematical with Go wrap-around applied at every arithmetic instruction; math.Int is a mathematical integer bounded by 2^256.",
	}
	ev := map[string]interface{}{
		"property_id": cr.prop,
		"tier":        cr.tier,
		"seed":        cr.seed,
		"level":       level,
		"coverage":    cov,
		"assumptions": cr.assumptions(keys(trusted), keys(havocked)),
		"wall_s":      wall,
		"violations":  violations,
	}
	os.MkdirAll(filepath.Join(e.outDir, "evidence"), 0o755)
	data, _ := json.MarshalIndent(ev, "", " ")
	os.WriteFile(filepath.Join(e.outDir, "evidence", cr.prop+".json"), data, 0o644)
	fmt.Printf("%s %s: %d functions under contract, %d obligations, %d discharged, %d undischarged (%d known), %.1fs wall, %.1fs solver\n",
		cr.prop, cr.tier, len(fnUnder), len(all), discharged, failed, failed-violations, wall, cr.tally.SolverSec)
	return exit
}

func (cr *checkRun) assumptions(trusted, havocked []string) []string {
	out := []string{
		"assumed contracts of dependencies (specs/*.spec) are taken as given: " + strings.Join(trusted, "; "),
		"calls to functions without contract or body are havocked (result unconstrained within its type, no effect on orbiter state): " + strings.Join(havocked, "; "),
		"A-INT256: every math.Int value is nil or within 256 bits",
		"slices: append never aliases a previous backing array (capacity not modelled)",
		"package-level variables are not written after init (scanned each run)",
		"partial correctness: obligations speak about executions that return; panics are the subject of C14 (and of C11/C17 for their own functions)",
		"havocked callees are assumed not to panic, except functions of cosmossdk.io/math, cosmos-sdk/types, math/big and Must* functions: a call to one of those without a panics-unless spec is a failed safety obligation in the runs that prove panic freedom",
		"[inv] preconditions (registered routes non-nil, the IBC adapter is the route of PROTOCOL_IBC, stored totals decode to non-nil integers, the stored limit is unsigned) are assumed at entry and never re-proved per call; non-nil injected dependencies are NOT assumed: they are object invariants proved on the constructors (typeinv) - what is assumed there is that the application wiring calls those constructors",
		"integers are mathematical with Go wrap-around written out at each arithmetic instruction; products of two symbolic integers are an uninterpreted function (sound abstraction)",
	}
	if cr.tier == "thorough" {
		out = append(out, "trusted specs of plain-value library functions used by this run were TESTED (not proved) against the real functions on generated inputs: see coverage.trusted_spec_conformance")
	} else {
		out = append(out, "trusted specs are not re-tested in the quick tier (./conform and the thorough tier test those of plain-value functions against the real code)")
	}
	return out
}

// exportSafety: the export side of C17 - panic freedom is claimed there as well (the module's ExportGenesis runs in
// the export command and in upgrades; a panic there loses the export)
func exportSafety(name string) bool {
	return strings.Contains(name, "ExportGenesis") || strings.HasPrefix(name, "GetAll") || strings.HasPrefix(name, "GetPaused")
}
