#!/usr/bin/env python3
"""canaries.py <property>: must-fail canaries of the thorough tier. Every mutant (own corpus under selftest/mutants,
sub-agent seeds under seeded/) that lists the property as must-fail is applied to a scratch copy of the current
tree under /var/tmp; the quick check of the property must report a violation there. Mutants whose patch no longer
applies to the current tree are skipped. The outcome is added to evidence/<property>.json (coverage.canaries)."""
import sys, os, json, glob, subprocess, shutil, tempfile, concurrent.futures
V = os.environ.get('VERIF_DIR', '/verif'); REPO = os.environ.get('VERIF_REPO', '/repo'); prop = sys.argv[1]
OUT = os.environ.get('VERIF_OUT', V)
cands = []
for j in sorted(glob.glob(f'{V}/selftest/mutants/*.json')):
    d = json.load(open(j))
    if prop in d.get('must_fail', []):
        cands.append((d['name'], j[:-5] + '.patch'))
for m in sorted(glob.glob(f'{V}/seeded/*/meta.json')):
    d = json.load(open(m))
    if prop in d.get('checks_reporting_a_violation', []):
        cands.append(('seeded/' + os.path.basename(os.path.dirname(m)), os.path.dirname(m) + '/patch.diff'))
def run(c):
    name, patch = c
    d = tempfile.mkdtemp(prefix='govc-canary-', dir='/var/tmp')
    try:
        repo = os.path.join(d, 'repo')
        subprocess.run(['rsync', '-a', '--exclude', '.git', REPO + '/', repo + '/'], check=True)
        p = subprocess.run(['patch', '-p1', '-s', '-f', '-d', repo, '-i', patch], capture_output=True, text=True)
        if p.returncode != 0:
            return name, 'skipped (patch does not apply to the current tree)'
        env = dict(os.environ, VERIF_REPO=repo, VERIF_OUT=os.path.join(d, 'out'), VERIF_DIR=V)
        r = subprocess.run([f'{V}/bin/govc', 'check', prop, 'quick'], env=env, capture_output=True, text=True)
        return name, 'detected' if r.returncode == 1 else ('MISSED' if r.returncode == 0 else 'error')
    finally:
        shutil.rmtree(d, ignore_errors=True)
res = {}
with concurrent.futures.ThreadPoolExecutor(max_workers=3) as ex:
    for name, verdict in ex.map(run, cands):
        res[name] = verdict
det = sum(1 for v in res.values() if v == 'detected'); missed = [k for k, v in res.items() if v == 'MISSED']
print(f'{prop} canaries: {len(res)} mutants, {det} detected, {len(missed)} missed, {sum(1 for v in res.values() if v.startswith("skipped"))} skipped')
for k in missed:
    print(f'WARNING canary {k} is not detected by the {prop} check any more (the check lost strength; the tree itself was found to satisfy the property)')
ev = f'{OUT}/evidence/{prop}.json'
try:
    e = json.load(open(ev)); e.setdefault('coverage', {})['canaries'] = res; json.dump(e, open(ev, 'w'), indent=1)
except Exception as ex:
    print('could not record canaries in the evidence file:', ex)
