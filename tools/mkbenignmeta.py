#!/usr/bin/env python3
"""writes /verif/benign/<name>/meta.json from the agent's meta and the stored check log; prints a table"""
import json,glob,os,re
rows=[]
notes={
 'C12b-record-helper-index-loop':'first run alarmed (the moved loop carried an `unroll 2` contract, which has to be adopted when the helper is entered): corrected, now clean',
 'C16-cutprefix-helpers':'first run alarmed (strings.CutPrefix havocked): specs added, now clean',
 'C06-dispatch-action-helper':'first run alarmed (range loop rewritten as counting loop: idx unknown, no bound): engine corrected, now clean',
 'C01-onrecv-helpers':'first run alarmed in C03 (declared swallow moved into a helper): swallows now cover inlined helpers, now clean',
 'C17-forwarder-validate-helpers':'first run alarmed (loops with loop contracts moved into new helper functions): loop-contract adoption added to the engine, now clean',
 'C15-validate-helpers':'first run alarmed (loops with loop contracts moved into new helper functions): loop-contract adoption added to the engine, now clean',
}
for d in sorted(glob.glob('/verif/benign/*/')):
    name=os.path.basename(d.rstrip('/'))
    a=json.load(open(d+'meta.agent.json'))
    log=open(d+'check.log').read()
    checks={}
    for m in re.finditer(r'^(C\d+) quick: .*?(\d+) undischarged',log,re.M):
        checks[m.group(1)]='clean' if m.group(2)=='0' else 'alarmed'
    meta={'name':name,'property':a.get('property'),'summary':a.get('summary'),'why_preserved':a.get('why_preserved'),
          'files_changed':a.get('files_changed'),'agent_verified':a.get('verified'),'checks_run':checks,
          'outcome':'clean' if all(v=='clean' for v in checks.values()) else 'alarmed','note':notes.get(name,'')}
    json.dump(meta,open(d+'meta.json','w'),indent=1)
    rows.append(meta)
for r in rows:
    print(f"| `{r['name']}` | {(r['summary'] or '')[:150].replace('|','/')}… | {' '.join(k+':'+v for k,v in r['checks_run'].items())} | {r['note']} |")
print(sum(r['outcome']=='clean' for r in rows),'of',len(rows),'clean')
