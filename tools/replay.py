#!/usr/bin/env python3
"""replay.py <replay-file.json>: shows a violation record; when it carries a replay test (a counterexample the
solver produced for a function over plain values), re-runs that test against the real code of $VERIF_REPO
(default /repo) through `go test -overlay` (nothing is written into the repository) and prints what the real
function returned."""
import json, os, subprocess, sys, tempfile, re
doc = json.load(open(sys.argv[1]))
print("property  :", doc.get("property")); print("obligation:", doc.get("obligation")); print("clause    :", doc.get("clause")); print("position  :", doc.get("position"))
rp = doc.get("replay") or {}
print("solver    :", (doc.get("solver") or {}).get("name"), (doc.get("solver") or {}).get("answer"))
print("replay    :", rp.get("note"))
src = rp.get("test_source")
if not src:
    print("(no failing input: the record carries the failed obligation and the solver's output only)")
    sys.exit(0)
repo = os.environ.get("VERIF_REPO", "/repo")
m = re.search(r"\./(\S+)/$", rp.get("command", ""))
if not m:
    print("cannot determine the package directory"); sys.exit(2)
rel = m.group(1)
with tempfile.TemporaryDirectory(dir="/var/tmp") as d:
    tf = os.path.join(d, "zz_govc_replay_test.go"); open(tf, "w").write(src)
    ov = os.path.join(d, "ov.json"); json.dump({"Replace": {os.path.join(repo, rel, "zz_govc_replay_test.go"): tf}}, open(ov, "w"))
    out = os.path.join(d, "out.json")
    env = dict(os.environ, GOFLAGS="", GOVC_REPLAY_OUT=out)
    p = subprocess.run(["go", "test", "-overlay", ov, "-vet=off", "-count=1", "-timeout", "60s", "-run", "^TestGovcReplay$", "./" + rel + "/"], cwd=repo, env=env, capture_output=True, text=True)
    print("inputs    :", json.dumps(rp.get("inputs")))
    if os.path.exists(out):
        print("observed now on", repo, ":", open(out).read())
        print("observed when the check ran:", json.dumps(rp.get("observed")))
    else:
        print("replay test did not run:", (p.stdout + p.stderr)[-600:]); sys.exit(2)
