#!/bin/bash
# usage: benigncheck.sh <dir with patch.diff, meta.json> <name> <props...>
# applies a property-preserving change to /repo, runs the property checks (all must stay clean), reverts;
# stores the change and the outcome as /verif/benign/<name>/
set -u
SD=$1; NAME=$2; shift 2; PROPS="$@"
OUT=/verif/benign/$NAME; mkdir -p $OUT
if [ -n "$(git -C /repo status --porcelain)" ]; then echo "/repo is dirty: commit first"; exit 1; fi
log=$OUT/check.log; : > $log
cd /repo && git apply $SD/patch.diff || { echo "PATCH DOES NOT APPLY" | tee -a $log; exit 1; }
GOFLAGS= GOPROXY=off go build ./... >>$log 2>&1 && echo build-ok | tee -a $log
for p in $PROPS; do (cd /verif && VERIF_OUT=/var/tmp/benout-$NAME ./check $p quick 2>&1 | grep -E "^(FAILED|STALE|C[0-9]+ quick|KNOWN|        )" | cut -c1-300 | tee -a $log); done
git -C /repo checkout -- . ; git -C /repo clean -fdq; rm -rf /var/tmp/benout-$NAME
cp $SD/patch.diff $OUT/; cp $SD/meta.json $OUT/meta.agent.json
echo done
