#!/bin/bash
# usage: seedcheck.sh <seed-dir> <worktree> <name> <prop> [more props to run]
# 1. confirms the seeded change in the scratch worktree (build, existing tests, demo fails/passes)
# 2. applies it to /repo, runs the property checks, reverts /repo
# 3. stores it as /verif/seeded/<name>/
set -u
SD=$1; WT=$2; NAME=$3; shift 3; PROPS="$@"
OUT=/verif/seeded/$NAME; mkdir -p $OUT
DEMODIR=$(python3 -c "import json;print(json.load(open('$SD/meta.json'))['demo_package_dir'])")
RUN=$(grep -o "^func Test[A-Za-z0-9_]*" $SD/demo_test.go | sed 's/func //' | paste -sd'|')
cd $WT && git checkout -q -- . && git clean -fdq
log=$OUT/confirm.log; : > $log
echo "== apply + build" | tee -a $log
git apply $SD/patch.diff && GOFLAGS= GOPROXY=off go build ./... >>$log 2>&1 && echo build-ok | tee -a $log
echo "== existing tests with change" | tee -a $log
GOFLAGS= GOPROXY=off go test -count=1 ./... 2>&1 | grep -v "no test files" | tee -a $log | grep -c "^ok" 
grep -E "^(FAIL|---)" $log | head
cp $SD/demo_test.go $DEMODIR/zz_seed_demo_test.go
echo "== demo with change (must fail)" | tee -a $log
GOFLAGS= GOPROXY=off go test -count=1 -run "$RUN" ./$DEMODIR/ 2>&1 | tail -3 | tee -a $log
git checkout -q -- . 
echo "== demo without change (must pass)" | tee -a $log
GOFLAGS= GOPROXY=off go test -count=1 -run "$RUN" ./$DEMODIR/ 2>&1 | tail -3 | tee -a $log
rm -f $DEMODIR/zz_seed_demo_test.go; git clean -fdq
echo "== my checks on /repo with the change" | tee -a $log
if [ -n "$(git -C /repo status --porcelain)" ]; then echo "/repo is dirty: commit first"; exit 1; fi
cd /repo && git apply $SD/patch.diff || { echo "PATCH DOES NOT APPLY TO /repo" | tee -a $log; exit 1; }
for p in $PROPS; do (cd /verif && VERIF_OUT=/var/tmp/seedout-$NAME ./check $p quick 2>&1 | grep -E "^(FAILED|C[0-9]+ quick|KNOWN)" | cut -c1-260 | tee -a $log); done
git -C /repo checkout -- . ; rm -rf /var/tmp/seedout-$NAME
cp $SD/patch.diff $SD/demo_test.go $OUT/; cp $SD/meta.json $OUT/meta.agent.json
echo done
