#!/usr/bin/env python3
"""Generates /verif/MANIFEST.json from tools/claims.json (per-property texts) and properties.jsonl."""
import json
V='/verif'
props=[json.loads(l)['id'] for l in open(f'{V}/properties.jsonl')]
claims=json.load(open(f'{V}/tools/claims.json'))
checks=[]; na=[]
for p in props:
    c=claims.get(p)
    if c and c.get('claimed'):
        checks.append({
          "property_id":p,
          "quick_cmd":f"./check {p} quick",
          "thorough_cmd":f"./check {p} thorough",
          "evidence_file":f"/verif/evidence/{p}.json",
          "replay_cmd_template":"python3 tools/replay.py {path}",
          "engine":"govc",
          "level_claimed":{"category":c.get("category","proof"),"text":c["text"],"design_ref":c.get("design_ref","DESIGN.md §3 "+p)},
          "level_note":c["note"],
          "technique":c.get("technique","contract-based deductive verification: weakest-precondition VCs generated from go/ssa of the real code against //@ contracts, discharged by z3/cvc5")
        })
    else:
        na.append({"property_id":p,"reason":(c or {}).get("reason","not yet built in this round (work in progress; see DESIGN.md §7 build order)")})
m={
 "version":1,
 "setup_cmd":"cd /verif/engine && GOFLAGS=-mod=mod GOWORK=off GOPROXY=off go build -o ../bin/govc ./cmd/govc",
 "hooks":{"guard":"verif","enable":"govc loads /repo with -tags=verif; the only hooks are comment-only files **/contracts_verif.go (//go:build verif) holding the //@ contracts","baseline_off_cmd":"cd /repo && go test -json -vet=off -count=1 -timeout 25m ./...","source_commits":claims.get("_hook_commits",[]),"add_only":True},
 "engines":[{"name":"govc","path":"/verif/engine","serves_properties":[c["property_id"] for c in checks],"kind_free_text":"verification-condition generator over go/ssa with Gobra-style //@ contracts (requires/ensures/modifies/loop invariants/ghost state/lemmas); SMT back ends z3 5.1.0, cvc5 1.0.3, z3 4.8.12 raced per obligation"}],
 "checks":checks,
 "not_applicable":na,
 "notes":claims.get("_notes","")
}
json.dump(m,open(f'{V}/MANIFEST.json','w'),indent=1)
print(len(checks),'claimed;',len(na),'not claimed')
