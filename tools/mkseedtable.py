#!/usr/bin/env python3
"""Regenerates the seeded-changes table of DESIGN.md §I.6 from seeded/*/meta.json."""
import json,glob,os
d=open('/verif/DESIGN.md').read()
rows=[]
for m in sorted(glob.glob('/verif/seeded/*/meta.json')):
    x=json.load(open(m)); n=os.path.basename(os.path.dirname(m))
    summ=x['summary'].replace('|','/'); summ=summ[:170].rsplit(' ',1)[0]+' …' if len(summ)>170 else summ
    needs=x['needs_to_manifest'].replace('|','/'); needs=needs[:150].rsplit(' ',1)[0]+' …' if len(needs)>150 else needs
    rows.append(f"| `{n}` | {summ} | {needs} | **{', '.join(x['checks_reporting_a_violation'])}** | {', '.join(x['checks_run_and_clean']) or '–'} |")
i=d.index('| seed | change | needs | reported by | run and clean |')
j=d.index('\n\n',i)
d=d[:i]+'| seed | change | needs | reported by | run and clean |\n|---|---|---|---|---|\n'+'\n'.join(rows)+d[j:]
open('/verif/DESIGN.md','w').write(d)
print(len(rows),'seeds')
