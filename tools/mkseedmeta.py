#!/usr/bin/env python3
"""mkseedmeta.py <seed-name> [note]: writes seeded/<name>/meta.json from the agent's meta and my confirm.log"""
import json,os,re,sys
n=sys.argv[1]; note=sys.argv[2] if len(sys.argv)>2 else ''
d='/verif/seeded/'+n
a=json.load(open(d+'/meta.agent.json'))
log=open(d+'/confirm.log').read()
detected=sorted(set(re.findall(r'^(C\d+) quick: .* (\d+) undischarged',log,re.M)))
det=[p for p,k in detected if int(k)>0]; clean=[p for p,k in detected if int(k)==0]
m={"property":a.get('property'),"origin":"sub-agent given only the property text (and, for a second change on a property, one line saying what had been tried) and a scratch worktree",
   "summary":a.get('summary',''),"needs_to_manifest":a.get('needs',''),"files_changed":a.get('files_changed',[]),
   "confirmed_by_me":{"builds_and_existing_tests_pass_with_change":'build-ok' in log and 'FAIL\t' not in log.split('== demo with change')[0],
       "demo_fails_with_change":'FAIL' in log.split('== demo with change')[-1].split('== demo without change')[0],
       "demo_passes_without_change":'ok' in log.split('== demo without change')[-1].split('== my checks')[0]},
   "what_i_ran":"tools/seedcheck.sh: git apply in the scratch worktree, go build ./..., go test ./..., the agent's demo test with and without the change; then git -C /repo apply <patch>, ./check <prop> quick for the properties below, git -C /repo checkout -- .",
   "checks_reporting_a_violation":det,"checks_run_and_clean":clean,
   "failing_obligations":[l[:200] for l in log.splitlines() if l.startswith('FAILED')][:6]}
if note: m['note']=note
json.dump(m,open(d+'/meta.json','w'),indent=1)
print(n,det,clean,m['confirmed_by_me'])
